"""C05 (and C04) -- integer kernels of the assembler, verified on MECHANICALLY SLICED statements of the real
riscv_parser.py (pyvc/slices.py states exactly what is dropped: token extraction, f-string rendering and re-parse of
the two numbers, list surgery).  The emitted group `lui rd, lui_imm ; addi rd, rd, addi_imm` is then executed with the
REAL LUI/ADDI classes (proved against the ISA in C01) and must leave the constant modulo 2**32 in rd."""
from pyvc.api import *
from fixedint import UInt32
from architecture_simulator.isa.riscv.rv32i_instructions import LUI, ADDI
from contracts.rvcommon import havoc_state
from architecture_simulator.isa.riscv.riscv_parser import RiscvParser

M = "architecture_simulator.isa.riscv.riscv_parser"
F = "RiscvParser._process_pseudo_instructions"


def run_group(rd, lui_imm, addi_imm):
    """execute lui rd, lui_imm ; addi rd, rd, addi_imm through the real instruction classes"""
    st, regs0 = havoc_state()
    st.program_counter = 0
    LUI(rd, lui_imm).behavior(st)
    ADDI(rd, rd, addi_imm).behavior(st)
    return st, regs0


def split_contract(value_name, if_test, nth, value):
    # (`self` is a real parser object: if the arithmetic has been moved into a helper method, the slice calls it)
    r = run_slice(M, F, if_test, {value_name: value, "self": RiscvParser()}, ("lui_imm", "addi_imm"), nth=nth)
    require("the slice holds the statements that compute both parts", r["__n_statements__"] >= 1)
    rd = sym_int("rd", 1, 31)
    st, regs0 = run_group(rd, r["lui_imm"], r["addi_imm"])
    check("group_leaves_value_mod_2^32", int(st.register_file.registers[rd]) == value % 2 ** 32)
    ok = True
    for j in range(1, 32):
        ok = ok & implies(j != rd, int(st.register_file.registers[j]) == int(regs0[j]))
    check("no_other_register_touched", ok)
    check("addi_operand_is_a_12_bit_field", (0 <= r["addi_imm"]) & (r["addi_imm"] < 4096))
    return r


@unit("C05/li/upper-lower-split")
def li_split():
    c = sym_int("c")            # EVERY integer constant
    r = split_contract("imm", "mnemonic == 'li'", 0, c)
    # the slice also yields the test that decides between the two-instruction and the one-instruction form
    small = not r["__tests__"][0]
    check("short_form_exactly_for_12_bit_constants", small == ((-2048 <= c) & (c <= 2047)))
    if small:
        st, regs0 = havoc_state()
        rd = sym_int("rd", 1, 31)
        ADDI(rd, 0, c).behavior(st)
        check("short_form_leaves_constant", int(st.register_file.registers[rd]) == c % 2 ** 32)


@unit("C05/la-and-load-by-name/upper-lower-split")
def la_split():
    a = sym_int("address")
    split_contract("address", "line_parsed.get('variable')", 0, a)


@unit("C05/store-by-name/upper-lower-split")
def store_split():
    a = sym_int("address")
    split_contract("address", "mnemonic in self._s_type_mnemonics and line_parsed.get('variable')", 0, a)


@unit("C05/name[i]/element-address")
def element_address():
    """address = variables[name][0] + variables[name][1] * index  (sliced: the two assignments of array_index/address,
    with the table lookup and the index token replaced by symbolic values through a stub table)"""
    base = sym_int("base", 0, 2 ** 32 - 1)
    size = sym_int("size", 1, 4)
    idx = sym_int("index", 0)

    class Tok:
        pass

    class P:
        def get(self, name):
            return getattr(self, name)
    lp = P()
    lp.variable = Tok()
    lp.variable.name = "v"
    lp.variable.index = str(idx) if native() else IndexToken(idx)
    slf = RiscvParser()          # (a real parser object: helper methods the statements may call are available)
    slf.variables = {"v": (base, size)}
    for test, nth in (("line_parsed.get('variable')", 0), ("mnemonic in self._s_type_mnemonics and line_parsed.get('variable')", 0)):
        r = run_slice(M, F, test, {"self": slf, "line_parsed": lp}, ("address",), nth=nth)
        require("the slice holds the statements that compute the element address", r["__n_statements__"] >= 1)
        check("element_i_is_at_base_plus_size_times_i", r["address"] == base + size * idx)


class IndexToken:
    """symbolic stand-in for the index token: int(token) is the index, truthiness is 'an index was written'"""

    def __init__(self, v):
        self.v = v

    def __int__(self):
        return self.v

    def __bool__(self):
        return True


@unit("C05/_write_data/zero/element-size")
def zero_element_size():
    n = sym_int("num_words", 0)
    ac = sym_int("address_counter", 0)
    r = run_slice(M, "RiscvParser._write_data", "line_parsed.type.type == 'zero'", {"num_words": n, "address_counter": ac},
                  ("address_counter",), capture_calls=("self.variables.update",))
    require("exactly one entry of the variable table is recorded for a .zero declaration", len(r["__captured__"]) == 1)
    entry = r["__captured__"][0]
    check("recorded_address_is_the_start", entry[0] == ac)
    check("element_size_is_one_word", entry[1] == 4)
    check("reserves_n_words", r["address_counter"] == ac + 4 * n)


@unit("C05/canary/li-without-carry-compensation", canary=True)
def canary_li():
    c = sym_int("c", 0, 2 ** 32 - 1)
    rd = sym_int("rd", 1, 31)
    st, regs0 = run_group(rd, c // 4096, c % 4096)
    check("naive_split_works", int(st.register_file.registers[rd]) == c)


# C04 states the same of every expanding pseudo-instruction ("a group of base instructions that has the documented
# effect"): the three split contracts are obligations of C04 as well
unit("C04/pseudo-group/li-leaves-the-constant")(li_split)
unit("C04/pseudo-group/la-and-load-by-name-form-the-variable-address")(la_split)
unit("C04/pseudo-group/store-by-name-forms-the-variable-address")(store_split)
