"""C17 -- displayed values are faithful in all four representations.

get_n_bit_representations(number, n) for the three widths the simulator uses (12, 16, 32) and an
arbitrary Python integer `number` (negative and over-wide included).  The expected strings are built
here digit by digit from number mod 2**n, independently of format()/groupify_string().
"""
from pyvc.api import *
from fixedint import UInt32, UInt16
from architecture_simulator.util.integer_representations import (
    get_n_bit_representations, get_12_bit_representations, get_16_bit_representations, get_32_bit_representations,
    groupify_string, to_hex_str)
from architecture_simulator.uarch.riscv.register_file import RegisterFile, Registers
from architecture_simulator.simulation.toy_simulation import ToySimulation
from architecture_simulator.util.fixedint_12 import UInt12

HEX = "0123456789ABCDEF"


def expected(u, n):
    """(bin, udec, hex, sdec) for the unsigned value u < 2**n, digit by digit, groups of 8 / 2 from the right."""
    b = ""
    for pos in range(n - 1, -1, -1):
        b = b + "01"[(u // 2 ** pos) % 2]
        if pos % 8 == 0 and pos != 0:
            b = b + " "
    nh = (n + 3) // 4
    h = ""
    for pos in range(nh - 1, -1, -1):
        h = h + HEX[(u // 16 ** pos) % 16]
        if pos % 2 == 0 and pos != 0:
            h = h + " "
    s = ite(u >= 2 ** (n - 1), u - 2 ** n, u)
    return (b, str(u), h, str(s))


def repr_contract(fn, n):
    x = sym_int("number")
    r = fn(x)
    e = expected(x % 2 ** n, n)
    check("is_4_tuple", type(r) is tuple and len(r) == 4)
    check("binary_digits_and_grouping", r[0] == e[0])
    check("unsigned_decimal", r[1] == e[1])
    check("hex_digits_and_grouping", r[2] == e[2])
    check("signed_decimal_twos_complement", r[3] == e[3])


@unit("C17/get_n_bit_representations/n=12")
def n12():
    repr_contract(lambda x: get_n_bit_representations(x, 12), 12)


@unit("C17/get_n_bit_representations/n=16")
def n16():
    repr_contract(lambda x: get_n_bit_representations(x, 16), 16)


@unit("C17/get_n_bit_representations/n=32")
def n32():
    repr_contract(lambda x: get_n_bit_representations(x, 32), 32)


@unit("C17/shorthands")
def shorthands():
    repr_contract(get_12_bit_representations, 12)
    repr_contract(get_16_bit_representations, 16)
    repr_contract(get_32_bit_representations, 32)


@unit("C17/RegisterFile.reg_repr")
def reg_repr():
    rf = RegisterFile()
    vals = []
    for i in range(32):
        v = sym_fixed("x%d" % i, UInt32)
        vals.append(v)
    rf.registers = Registers(vals)
    before = snapshot(rf)
    r = rf.reg_repr()
    check("one_row_per_register", len(r) == 32)
    for i in range(32):
        e = expected(int(vals[i]), 32)
        check("row_%d" % i, r[i][0] == e[0] and r[i][1] == e[1] and r[i][2] == e[2] and r[i][3] == e[3])
    check_same("pure", before, snapshot(rf))


@unit("C17/RegisterFile.reg_repr/x0-after-a-write-to-x0")
def reg_repr_x0():
    """x0 is hard-wired to zero: whatever an instruction with destination x0 has 'written', the table shows 0 -- the value
    every instruction reads"""
    rf = RegisterFile()
    rf.registers[0] = sym_fixed("written_to_x0", UInt32)
    rf.registers[5] = sym_fixed("x5", UInt32)
    r = rf.reg_repr()
    e0 = expected(0, 32)
    check("x0_row_shows_zero", r[0][0] == e0[0] and r[0][1] == e0[1] and r[0][2] == e0[2] and r[0][3] == e0[3])
    check("x0_reads_zero", int(rf.registers[0]) == 0)
    e5 = expected(int(rf.registers[5]), 32)
    check("x5_row", r[5][0] == e5[0] and r[5][1] == e5[1] and r[5][2] == e5[2] and r[5][3] == e5[3])
    sim = RiscvSimulation()
    sim.state.register_file.registers[0] = sym_fixed("written_to_x0_b", UInt32)
    check("register_table_of_the_simulation", sim.get_register_entries()[0][1] == "0")


@unit("C17/ToySimulation.get_register_representations")
def toy_regs():
    sim = ToySimulation()
    sim.state.accu = sym_fixed("accu", UInt16)
    sim.state.program_counter = UInt12(sym_int("pc", 0, 4095))
    sim.state.max_pc = sym_int("max_pc", 0, 4095)
    before = snapshot(sim)
    r = sim.get_register_representations()
    ea = expected(int(sim.state.accu), 16)
    ep = expected(int(sim.state.program_counter), 12)
    check("accu", r["accu"][0] == ea[0] and r["accu"][1] == ea[1] and r["accu"][2] == ea[2] and r["accu"][3] == ea[3])
    check("pc", r["pc"][0] == ep[0] and r["pc"][1] == ep[1] and r["pc"][2] == ep[2] and r["pc"][3] == ep[3])
    check_same("pure", before, snapshot(sim))


@unit("C17/ToySimulation.get_register_representations/ir")
def toy_ir():
    """the instruction register shows the word that was fetched (every 16-bit word whose opcode is one of the thirteen;
    words with opcode 13..15 are held as the NOP they act as)"""
    from architecture_simulator.isa.toy.toy_instructions import ToyInstruction
    sim = ToySimulation()
    w = sym_int("word", 0, 65535)
    sim.state.max_pc = 5
    sim.state.loaded_instruction = ToyInstruction.from_integer(w)
    r = sim.get_register_representations()
    shown = ite(w // 4096 <= 12, w, 12 * 4096 + w % 4096)
    e = expected(shown, 16)
    check("ir", r["ir"][0] == e[0] and r["ir"][1] == e[1] and r["ir"][2] == e[2] and r["ir"][3] == e[3])
    sim.state.loaded_instruction = None
    check("no_instruction_loaded_shows_nothing", sim.get_register_representations()["ir"] == ("", "", "", ""))


@unit("C17/canary/sign-threshold", canary=True)
def canary_sign():
    x = sym_int("number")
    r = get_n_bit_representations(x, 16)
    u = x % 2 ** 16
    check("signed_off_by_one", r[3] == str(ite(u > 2 ** 15, u - 2 ** 16, u)))


# ---- memory tables: exactly the words of the backing store that contain a written byte, ascending, current values
from fixedint import UInt8
from architecture_simulator.uarch.memory.memory import Memory, AddressingType
from architecture_simulator.simulation.riscv_simulation import RiscvSimulation

LO = 2 ** 14


@unit("C17/Memory.wordwise_repr-and-data-memory-table")
def memory_table():
    sim = RiscvSimulation()
    m = sim.state.memory
    keys = [LO + 9, LO, LO + 1, LO + 5, LO + 64, 2 ** 32 - 1]          # written bytes, in insertion (not address) order
    vals = {}
    for a in keys:
        vals[a] = sym_fixed("b%d" % (a % 1000), UInt8)
        m.memory_file[a] = vals[a]
    before = snapshot(sim)
    t = m.wordwise_repr()
    words = sorted(set([a - a % 4 for a in keys]))
    check("lists_exactly_the_words_with_a_written_byte", sorted(t.keys()) == words)
    ok = True
    for w in words:
        v = 0
        for k in range(4):
            if (w + k) in vals:
                v = v + int(vals[w + k]) * 256 ** k
        e = expected(v, 32)
        ok = ok & (t[w][0] == e[0]) & (t[w][1] == e[1]) & (t[w][2] == e[2]) & (t[w][3] == e[3])
    check("shows_the_current_little_endian_word_values", ok)
    rows = sim.get_data_memory_entries()
    check("table_is_ascending_with_true_addresses", [r[0][0] for r in rows] == words
          and all_of([rows[i][0][1] == "0x" + format(words[i], "08X") for i in range(len(words))])
          and all_of([rows[i][1] == t[words[i]] for i in range(len(words))]))
    check_same("pure", before, snapshot(sim))
    # the table is recomputed from the store, not remembered: stores made after an inspection (here: a word store that
    # straddles two listed words and a byte store into a new word) show in the next one
    nv = sym_fixed("stored_word", UInt32)
    nb = sym_fixed("stored_byte", UInt8)
    m.write_word(LO + 2, nv)
    m.write_byte(LO + 130, nb)
    for k in range(4):
        vals[LO + 2 + k] = (int(nv) // 256 ** k) % 256
    vals[LO + 130] = nb
    t2 = m.wordwise_repr()
    words2 = sorted(set([a - a % 4 for a in vals]))
    ok2 = sorted(t2.keys()) == words2
    for w in words2:
        v = 0
        for k in range(4):
            if (w + k) in vals:
                v = v + int(vals[w + k]) * 256 ** k
        e = expected(v, 32)
        ok2 = ok2 & (t2[w][0] == e[0]) & (t2[w][1] == e[1]) & (t2[w][2] == e[2]) & (t2[w][3] == e[3])
    check("an_inspection_after_further_stores_shows_the_new_values", ok2)
    rows2 = sim.get_data_memory_entries()
    check("so_does_the_table", [r[0][0] for r in rows2] == words2 and all_of([rows2[i][1] == t2[words2[i]] for i in range(len(words2))]))


@unit("C17/ToySimulation.get_memory_table_entries")
def toy_memory_table():
    """the TOY memory table lists exactly the written words, at their true addresses in ascending order, each in the four
    16-bit representations of its current value -- also after a further store"""
    sim = ToySimulation()
    m = sim.state.memory
    sim.state.max_pc = 1
    cells = {}
    for a in (9, 0, 4095, 1, 300):          # insertion order is not address order
        cells[a] = sym_fixed("c%d" % a, UInt16)
        m.memory_file[a] = cells[a]
    rows = sim.get_memory_table_entries()
    order = sorted(cells)
    check("rows_ascending_with_true_addresses", [r[0][0] for r in rows] == order and all_of([rows[i][0][1] == "0x" + format(order[i], "03X") for i in range(len(order))]))
    ok = True
    for i, a in enumerate(order):
        e = expected(int(cells[a]), 16)
        ok = ok & (rows[i][1][0] == e[0]) & (rows[i][1][1] == e[1]) & (rows[i][1][2] == e[2]) & (rows[i][1][3] == e[3])
    check("four_representations_of_the_current_values", ok)
    check("words_behind_the_program_are_not_shown_as_instructions", all_of([rows[i][2] == "-" for i, a in enumerate(order) if a > 1]))
    nv = sym_fixed("stored", UInt16)
    m.write_halfword(300, nv)
    m.write_halfword(17, nv)
    cells[300] = nv
    cells[17] = nv
    rows2 = sim.get_memory_table_entries()
    order2 = sorted(cells)
    ok2 = [r[0][0] for r in rows2] == order2
    for i, a in enumerate(order2):
        e = expected(int(cells[a]), 16)
        ok2 = ok2 & (rows2[i][1][0] == e[0]) & (rows2[i][1][1] == e[1]) & (rows2[i][1][2] == e[2]) & (rows2[i][1][3] == e[3])
    check("a_later_inspection_shows_later_stores", ok2)
