"""C04 -- integer kernels of the assembler's label / displacement arithmetic, on the real functions.
`RiscvParser._convert_label_or_imm` is executed as is on a real parser object (helpers on `self` are followed; its ParseResults argument replaced by a stub exposing the four
token fields it reads); the JAL numeric-operand adjustment is a mechanical slice of `_write_instructions`."""
from pyvc.api import *
from architecture_simulator.isa.riscv.riscv_parser import RiscvParser
from architecture_simulator.isa.parser_exceptions import ParserLabelException, ParserOddImmediateException


class Tok:
    """stand-in for the pyparsing result of one branch/jal line: fields imm / label / offset as token strings"""

    def __init__(self, imm="", label="", offset=""):
        self.imm = imm
        self.label = label
        self.offset = offset

    def get(self, name):
        v = getattr(self, name)
        return v if v != "" else None


@unit("C04/_convert_label_or_imm/label-operand", expect_reach=("resolved", "unknown"))
def label_operand():
    la = sym_int("label_address", 0)
    ac = sym_int("address_count", 0)
    for off_text, off in (("", 0), ("0x8", 8), ("0x10", 16), ("0xFFC", 4092)):
        r = RiscvParser._convert_label_or_imm(RiscvParser(), Tok(label="L", offset=off_text), {"L": la, "M": 4}, ac, line="beq x0, x0, L", line_number=7)
        check("displacement_is_label_plus_offset_minus_own_address", r == la + off - ac)
    reach("resolved")
    try:
        RiscvParser._convert_label_or_imm(RiscvParser(), Tok(label="nosuch"), {"L": la}, ac, line="beq x0, x0, nosuch", line_number=7)
    except ParserLabelException as e:
        reach("unknown")
        check("unknown_label_reports_its_line", e.line_number == 7)
        return
    check("unknown_label_must_raise", False)


@unit("C04/_convert_label_or_imm/numeric-operand", expect_reach=("even", "odd"))
def numeric_operand():
    ac = sym_int("address_count", 0)
    for text, v in (("8", 8), ("-4", -4), ("0x10", 16), ("-0b110", -6), ("4094", 4094), ("0", 0)):
        tok = Tok(imm=text)
        r = RiscvParser._convert_label_or_imm(RiscvParser(), tok, {}, ac, line="l", line_number=2)
        check("numeric_operand_is_taken_as_written", r == v)
    reach("even")
    try:
        RiscvParser._convert_label_or_imm(RiscvParser(), Tok(imm="7"), {}, ac, line="beq x0, x0, 7", line_number=5)
    except ParserOddImmediateException as e:
        reach("odd")
        check("odd_immediate_reports_its_line", e.line_number == 5)
        return
    check("odd_immediate_must_raise", False)


@unit("C04/_write_instructions/jal-numeric-operand-is-absolute")
def jal_numeric():
    v = sym_int("operand")
    ac = sym_int("address_count", 0)

    class P:
        def get(self, name):
            return "8"

    class S:
        labels = {}

        def _convert_label_or_imm(self, *a, **k):
            return v
    r = run_slice("architecture_simulator.isa.riscv.riscv_parser", "RiscvParser._write_instructions",
                  "issubclass(instruction_class, instruction_types.JTypeInstruction)",
                  {"self": S(), "line_parsed": P(), "address_count": ac, "line_number": 1, "line": "l"}, ("imm_val",))
    require("the slice holds the assignment of the operand and its adjustment", r["__n_statements__"] >= 1)
    check("pc_relative_displacement_of_an_absolute_target", r["imm_val"] == v - ac)


@unit("C04/InstructionMemory.write_instructions/leaves-exactly-the-given-sequence")
def write_instructions_replaces():
    """the assembler's last step: whatever the instruction memory held before (an earlier, longer program), afterwards it
    holds exactly the given instructions at consecutive addresses from the first one -- nothing else"""
    from architecture_simulator.uarch.memory.instruction_memory import InstructionMemory
    from architecture_simulator.uarch.riscv.riscv_architectural_state import RiscvArchitecturalState
    from architecture_simulator.isa.riscv.rv32i_instructions import ADD, ADDI, SW
    for im in (InstructionMemory(), RiscvArchitecturalState().instruction_memory):
        old = [ADDI(1, 1, 1), ADDI(2, 2, 2), ADDI(3, 3, 3), ADDI(4, 4, 4)]
        im.write_instructions(old)
        check("first_program_stored", sorted(im.instructions.keys()) == [0, 4, 8, 12])
        new = [ADD(5, 6, 7), SW(1, 2, 4)]
        im.write_instructions(new)
        check("exactly_the_new_program", sorted(im.instructions.keys()) == [0, 4] and im.instructions[0] is new[0] and im.instructions[4] is new[1])
        check("no_instruction_behind_the_program", not im.instruction_at_address(8) and not im.instruction_at_address(12))
        im.write_instructions([])
        check("an_empty_program_leaves_nothing", len(im.instructions) == 0 and not im.instruction_at_address(0))
