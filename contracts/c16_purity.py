"""C16 -- inspection is pure.  Frame conditions by symbolic execution: every read-only inspection function is run
on states with arbitrary register / memory / latch / cache contents and the WHOLE reachable heap of the simulation is
compared before and after (check_same on snapshots: one obligation per heap leaf that is not syntactically
unchanged).  Calling a function twice must also return equal results.  States: single-cycle after one instruction,
five-stage in mid-flight (all latches occupied, with and without a pending stall), both with and without data and
instruction caches (any well-formed cache content over a backing memory with entries), TOY at a boundary and in
mid-instruction."""
from pyvc.api import *
from fixedint import UInt8, UInt16, UInt32
from architecture_simulator.simulation.riscv_simulation import RiscvSimulation
from architecture_simulator.simulation.toy_simulation import ToySimulation
from architecture_simulator.uarch.memory.cache import CacheOptions
from architecture_simulator.uarch.memory.decoded_address import DecodedAddress
from architecture_simulator.isa.riscv.rv32i_instructions import ADD, ADDI, LW, SW, BEQ, JAL, ECALL, LUI
from architecture_simulator.uarch.riscv.register_file import Registers
from contracts.rvcommon import LO

TIMER = ("_start", "_execution_time_s")

RISCV_COMMON = ["get_register_entries", "get_data_memory_entries", "get_instruction_memory_entries", "get_data_cache_entries",
                "get_data_cache_stats", "get_instruction_cache_entries", "get_instruction_cache_stats", "get_output",
                "get_exit_code", "is_done", "has_instructions", "get_performance_metrics_str"]
FIVE = ["get_riscv_five_stage_svg_update_values", "_get_riscv_five_stage_IF_svg_update_values", "_get_riscv_five_stage_ID_svg_update_values",
        "_get_riscv_five_stage_EX_svg_update_values", "_get_riscv_five_stage_MEM_svg_update_values",
        "_get_riscv_five_stage_WB_svg_update_values", "_get_riscv_five_stage_OTHER_svg_update_values"]
SINGLE = ["get_riscv_single_stage_svg_update_values"]
TOY = ["get_register_representations", "get_memory_table_entries", "get_toy_svg_update_values", "is_done", "has_instructions",
       "get_performance_metrics_str"]


def havoc_regs(st):
    regs = sym_list("x", 32, UInt32)
    regs[0] = UInt32(0)
    st.register_file.registers = Registers(regs)


def fill_memory(mem):
    """a backing memory with some written bytes (concrete addresses, arbitrary values)"""
    for a in (LO, LO + 1, LO + 2, LO + 3, LO + 8, LO + 64, LO + 65):
        mem.memory_file[a] = sym_fixed("m%d" % (a - LO), UInt8)


def havoc_data_cache(ms):
    for s in range(len(ms.cache.sets)):
        cs = ms.cache.sets[s]
        for w in range(len(cs.blocks)):
            b = cs.blocks[w]
            if sym_bool("v_%d_%d" % (s, w)):
                b.valid_bit = True
                b.dirty_bit = sym_bool("d_%d_%d" % (s, w))
                tag = sym_int("tag_%d_%d" % (s, w), LO // 8, 2 ** 29 - 1)
                b.decoded_address = DecodedAddress(ms.num_index_bits, ms.num_block_bits, tag * 8 + s * 4 * 0)
                b.values = [sym_fixed("w_%d_%d_%d" % (s, w, i), UInt32) for i in range(2 ** ms.num_block_bits)]
        pol = cs.replacement_strategy
        if hasattr(pol, "lru"):
            if sym_bool("lru_swapped_%d" % s) and len(pol.lru) == 2:
                pol.lru = [1, 0]
        else:
            pol.tree_array = [sym_bool("plru_%d_%d" % (s, j)) for j in range(len(pol.tree_array))]
    ms.hits = sym_int("hits", 0)
    ms.accesses = sym_int("accesses", 0)
    ms.last_was_hit = sym_bool("last_hit")


def riscv_state(mode, cached, pol="lru"):
    if cached:
        d = CacheOptions(enable=True, num_index_bits=0, num_block_bits=1, associativity=2, cache_type=cached, replacement_strategy=pol, miss_penalty=3)
        i = CacheOptions(enable=True, num_index_bits=1, num_block_bits=0, associativity=1, cache_type="wb", replacement_strategy="lru", miss_penalty=2)
        sim = RiscvSimulation(mode=mode, data_cache=d, instruction_cache=i)
    else:
        sim = RiscvSimulation(mode=mode)
    st = sim.state
    havoc_regs(st)
    prog = [ADDI(5, 6, 7), LW(8, 9, 4), ADD(10, 5, 8), SW(9, 10, 8), BEQ(5, 8, 8), LUI(11, 5), JAL(1, -12, 12)]
    st.instruction_memory.write_instructions(prog)
    assume(int(st.register_file.registers[9]) == LO + 4)
    if cached:
        fill_memory(st.memory.memory)
        havoc_data_cache(st.memory)
    else:
        fill_memory(st.memory)
    st.output = "out"
    n = 1 if mode == "single_stage_pipeline" else split(sym_int("steps", 3, 6))
    for _ in range(n):
        sim.step()
    return sim


def shared_tables():
    """class-level tables the inspection functions consult: shared by every simulation of the process, so a call that
    edits one in place changes later results of this and of every other simulation"""
    from architecture_simulator.isa.toy.toy_micro_program import MicroProgram
    return snapshot(MicroProgram._instr_bool_list_mapping, MicroProgram._instr_mp_mapping, MicroProgram._signal_names)


def purity(sim, fn):
    before = snapshot(sim, ignore=TIMER)
    tables = shared_tables()
    r1 = getattr(sim, fn)()
    mid = snapshot(sim, ignore=TIMER)
    check_same("state_unchanged", before, mid)
    r2 = getattr(sim, fn)()
    check_same("state_unchanged_by_repetition", before, snapshot(sim, ignore=TIMER))
    check_same("shared_tables_unchanged", tables, shared_tables())
    if fn != "get_performance_metrics_str":
        check_same("same_answer_when_repeated", snapshot(r1), snapshot(r2))
    # and a later step behaves as if the function had never been called: it starts from the identical heap (above)


def riscv_units(mode, cached, fns, pol="lru", tier="quick"):
    for fn in fns:
        def mk(fn=fn):
            @unit("C16/%s/%s%s/%s" % (mode.split("_")[0], ("cache-%s-%s" % (cached, pol)) if cached else "uncached", "", fn), tier=tier)
            def u():
                purity(riscv_state(mode, cached, pol), fn)
        mk()


riscv_units("single_stage_pipeline", None, RISCV_COMMON + SINGLE)
riscv_units("five_stage_pipeline", None, RISCV_COMMON + FIVE)
riscv_units("single_stage_pipeline", "wb", ["get_data_memory_entries", "get_data_cache_entries", "get_data_cache_stats", "get_instruction_cache_entries", "get_instruction_cache_stats", "get_riscv_single_stage_svg_update_values"])
riscv_units("five_stage_pipeline", "wt", ["get_data_memory_entries", "get_data_cache_entries", "get_data_cache_stats", "get_instruction_cache_entries", "get_instruction_cache_stats", "get_riscv_five_stage_svg_update_values"], "plru")
riscv_units("five_stage_pipeline", "wb", RISCV_COMMON, "plru", "thorough")
riscv_units("single_stage_pipeline", "wt", RISCV_COMMON, "lru", "thorough")


def toy_state(mid):
    from contracts.toy import boundary_state
    sim, f = boundary_state()
    # a few memory words with arbitrary content so that the memory table has rows
    if mid:
        assume(sim.state.loaded_instruction is not None)
        sim.first_cycle_step()
    return sim


def toy_units(mid):
    for fn in TOY:
        def mk(fn=fn):
            @unit("C16/toy/%s/%s" % ("mid-instruction" if mid else "boundary", fn))
            def u():
                sim = toy_state(mid)
                if fn == "get_memory_table_entries":
                    # the table iterates over the written cells: use a memory with concrete written addresses
                    sim.state.memory.memory_file = {7: sym_fixed("c7", UInt16)}
                purity(sim, fn)
        mk()


toy_units(False)
toy_units(True)


@unit("C16/canary/step-is-not-pure", canary=True)
def canary_step():
    sim = riscv_state("single_stage_pipeline", None)
    before = snapshot(sim, ignore=TIMER)
    sim.step()
    check_same("state_unchanged", before, snapshot(sim, ignore=TIMER))
