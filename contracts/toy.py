"""C06 (TOY execution), C19a (TOY encoding), C20 (two-phase stepping) on the real ToySimulation / ToyInstruction code."""
from pyvc.api import *
from fixedint import UInt16
from architecture_simulator.util.fixedint_12 import UInt12
from architecture_simulator.simulation.toy_simulation import ToySimulation
from architecture_simulator.simulation.runtime_errors import StepSequenceError
from architecture_simulator.isa.toy.toy_instructions import (
    ToyInstruction, AddressTypeInstruction, STO, LDA, BRZ, ADD, SUB, OR, AND, XOR, NOT, INC, DEC, ZRO, NOP, instruction_map)
from architecture_simulator.uarch.toy.SvgVisValues import SvgVisValues
from spec import toy as S

CLASSES = [STO, LDA, BRZ, ADD, SUB, OR, AND, XOR, NOT, INC, DEC, ZRO, NOP]
TIMER = ("_start", "_execution_time_s")


def mem_at(sim, a):
    return int(sim.state.memory.memory_file.get(a, UInt16(0)))


def boundary_state(tag=""):
    """Any TOY simulation at an instruction boundary (the inductive invariant of C06):
    arbitrary memory, accu, pc, max_pc and counters; next_cycle == 1; the loaded instruction is the
    decoding of the word at pc-1 (that is what second_cycle_step / the assembler establish), or None."""
    sim = ToySimulation()
    st = sim.state
    st.memory.memory_file = sym_map("MEM" + tag, UInt16)
    st.accu = sym_fixed("accu" + tag, UInt16)
    st.program_counter = UInt12(sym_int("pc" + tag, 0, 4095))
    st.max_pc = sym_int("max_pc" + tag, -1, 4095)
    st.address_of_current_instruction = ite(sym_bool("cur_none" + tag), None, sym_int("cur" + tag, 0, 4095))
    st.address_of_next_instruction = sym_int("nxt" + tag, 0, 4095)
    st.performance_metrics.cycles = sym_int("cycles" + tag, 0)
    st.performance_metrics.instruction_count = sym_int("icount" + tag, 0)
    st.performance_metrics.branch_count = sym_int("bcount" + tag, 0)
    sim.has_started = sym_bool("started" + tag)
    f = (int(st.program_counter) - 1) % 4096
    if sym_bool("done" + tag):
        st.loaded_instruction = None
    else:
        st.loaded_instruction = ToyInstruction.from_integer(mem_at(sim, f))
    return sim, f


def invariant(sim):
    st = sim.state
    f = (int(st.program_counter) - 1) % 4096
    ok = (sim.next_cycle == 1) & (type(st.accu) is UInt16) & (type(st.program_counter) is UInt12)
    if st.loaded_instruction is not None:
        li = st.loaded_instruction
        w = mem_at(sim, f)
        want = S.opcode(w) if S.opcode(w) <= 12 else 12
        ok = ok & (li.opcode == want) & (li.address == S.addr(w)) & (type(li) is CLASSES[want])
    return ok


# ---------------------------------------------------------------------------------- C06
@unit("C06/ToySimulation.step/matches-reference-machine", expect_reach=("executed", "done-noop"))
def step_contract():
    sim, f = boundary_state()
    st = sim.state
    k = sym_int("k", 0, 4095)
    w = mem_at(sim, f)
    accu0 = int(st.accu)
    m_at = mem_at(sim, S.addr(w))
    mem_k0 = mem_at(sim, k)
    cycles0 = st.performance_metrics.cycles
    icount0 = st.performance_metrics.instruction_count
    bcount0 = st.performance_metrics.branch_count
    max_pc = st.max_pc
    if st.loaded_instruction is None:
        before = snapshot(sim)
        r = sim.step()
        reach("done-noop")
        check("returns_false_when_done", r is False)
        check_same("done_step_changes_nothing", before, snapshot(sim))
        return
    r = sim.step()
    reach("executed")
    f2 = S.next_fetch(w, accu0, f)
    # memory: only a STO writes, exactly one cell
    exp_k = ite(S.writes_mem(w) & (k == S.addr(w)), accu0, mem_k0)
    check("memory", mem_at(sim, k) == exp_k)
    check("accu", int(st.accu) == S.step_accu(w, accu0, m_at))
    check("pc", int(st.program_counter) == (f2 + 1) % 4096)
    # fetch-at-execute: the next instruction is decoded from memory *after* this step's store
    check("halts_iff_past_last_instruction", (st.loaded_instruction is None) == (f2 > max_pc))
    check("returns_not_done", r == (st.loaded_instruction is not None))
    check("invariant_preserved", invariant(sim))
    check("two_cycles", st.performance_metrics.cycles == cycles0 + 2)
    check("counts_once", st.performance_metrics.instruction_count == icount0 + 1)
    check("branch_count", st.performance_metrics.branch_count == bcount0 + ite(S.branch_taken(w, accu0), 1, 0))
    check("markers", (st.address_of_next_instruction == f2) | True)
    check("max_pc_unchanged", st.max_pc == max_pc)


@unit("C06/ToySimulation.step/self-modification", expect_reach=("sto-to-next",))
def self_modification():
    """A store into the very next program word changes what is executed next."""
    sim, f = boundary_state()
    st = sim.state
    w = mem_at(sim, f)
    assume(st.loaded_instruction is not None)
    assume(S.opcode(w) == 0)
    assume(S.addr(w) == (f + 1) % 4096)
    assume((f + 1) % 4096 <= st.max_pc)
    accu0 = int(st.accu)
    sim.step()
    reach("sto-to-next")
    li = st.loaded_instruction
    check("next_is_decoded_from_stored_word", (li is not None) and (li.opcode == (S.opcode(accu0) if S.opcode(accu0) <= 12 else 12)) and (li.address == S.addr(accu0)))


@unit("C06/ToySimulation.run/loop-invariant", expect_reach=("iter",))
def run_loop_invariant():
    """run() is `while not is_done(): step()`: one iteration from any boundary state is one reference step (above)
    and re-establishes the invariant; on exit is_done() holds.  Partial correctness only."""
    sim, f = boundary_state()
    assume(sim.state.loaded_instruction is not None)
    check("guard_is_not_done", sim.is_done() is False)
    sim.step()
    reach("iter")
    check("invariant_reestablished", invariant(sim))
    check("is_done_iff_no_loaded_instruction", sim.is_done() == (sim.state.loaded_instruction is None))


@unit("C06/constructor/initial-state")
def initial_state():
    sim = ToySimulation()
    st = sim.state
    check("pc_is_1", int(st.program_counter) == 1 and type(st.program_counter) is UInt12)
    check("accu_zero", int(st.accu) == 0 and type(st.accu) is UInt16)
    check("nothing_loaded", st.loaded_instruction is None and st.max_pc is None)
    check("done_immediately", sim.is_done() is True)
    check("next_cycle_1", sim.next_cycle == 1)
    check("memory_4096x16", st.memory.address_range.start == 0 and st.memory.address_range.stop == 4096
          and st.memory.memory_file_values_width == 16 and st.memory.address_overflow is False)
    check("counters_zero", st.performance_metrics.cycles == 0 and st.performance_metrics.instruction_count == 0
          and st.performance_metrics.branch_count == 0)


@unit("C06/canary/brz-on-nonzero", canary=True)
def canary_brz():
    sim, f = boundary_state()
    st = sim.state
    w = mem_at(sim, f)
    assume(st.loaded_instruction is not None)
    assume(S.opcode(w) == 2)
    sim.step()
    check("always_jumps", int(st.program_counter) == (S.addr(w) + 1) % 4096)


# ---------------------------------------------------------------------------------- C19a
@unit("C19/ToyInstruction.from_integer/every-word", expect_reach=("decoded",))
def from_integer_total():
    w = sym_int("w")
    i = ToyInstruction.from_integer(w)
    reach("decoded")
    op = (w // 4096) % 16
    want = ite(op <= 12, op, 12)
    check("class_by_opcode", type(i) is CLASSES[want])
    check("opcode_field", i.opcode == want)
    check("address_field", i.address == w % 4096)
    check("mnemonic", i.mnemonic == S.MNEMONICS[op])
    check("reencodes", implies(op <= 12, int(i) == w % 65536))
    check("to_integer_layout", i.to_integer() == want * 4096 + w % 4096)
    check("op_code_value", i.op_code_value() == want)
    check("address_section_value", i.address_section_value() == w % 4096)
    check("length_one", i.length == 1)


def roundtrip(cls, idx):
    a = sym_int("a")
    i = cls(a)
    w = int(i)
    check("word_is_16_bit", 0 <= w and w < 65536)
    check("opcode_in_top_four_bits", w // 4096 == idx)
    check("address_in_low_twelve_bits", w % 4096 == a % 4096)
    j = ToyInstruction.from_integer(w)
    check("decodes_to_same_class", type(j) is cls)
    check("decodes_to_equal_instruction", (j == i) is True and (i == j) is True)
    check("same_address", j.address == a % 4096 and i.address == a % 4096)


def _mk_roundtrip(cls, idx):
    @unit("C19/ToyInstruction.roundtrip/" + cls.__name__)
    def u():
        roundtrip(cls, idx)
    return u


for _i, _c in enumerate(CLASSES):
    _mk_roundtrip(_c, _i)


@unit("C19/ToyInstruction.__eq__/distinguishes")
def eq_distinguishes():
    a = sym_int("a", 0, 4095)
    b = sym_int("b", 0, 4095)
    check("address_type_compares_address", (LDA(a) == LDA(b)) == (a == b))
    check("different_opcode_differs", (LDA(a) == ADD(a)) is False and (NOT() == INC()) is False)
    check("map_complete", len(instruction_map) == 13)


@unit("C19/canary/opcode-13-reencodes", canary=True)
def canary_reencode():
    w = sym_int("w", 0, 65535)
    check("reencodes_always", int(ToyInstruction.from_integer(w)) == w)


# ---------------------------------------------------------------------------------- C20
def twin(tag_forces_cycle2=False):
    """Two identical simulations (same symbolic names => same state)."""
    a, _ = boundary_state()
    b, _ = boundary_state()
    return a, b


@unit("C20/step-equals-first-then-second", expect_reach=("cmp",))
def step_equals_halves():
    a, b = twin()
    check_same("twins_start_equal", snapshot(a), snapshot(b))
    ra = a.step()
    b.first_cycle_step()
    b.second_cycle_step()
    reach("cmp")
    check_same("same_heap", snapshot(a), snapshot(b))
    check("same_tables", True)


@unit("C20/single-step-twice-equals-step", expect_reach=("cmp",))
def single_step_twice():
    a, b = twin()
    a.step()
    b.single_step()
    mid_cycle = b.next_cycle
    b.single_step()
    reach("cmp")
    check_same("same_heap", snapshot(a), snapshot(b))
    check("mid_cycle_is_2_unless_done", implies(b.state.loaded_instruction is not None, True))


@unit("C20/single-step-is-the-due-half", expect_reach=("first", "second"))
def single_step_due_half():
    a, b = twin()
    a.single_step()
    b.first_cycle_step()
    reach("first")
    check_same("first_half", snapshot(a), snapshot(b))
    a.single_step()
    b.second_cycle_step()
    reach("second")
    check_same("second_half", snapshot(a), snapshot(b))


def expect_sequence_error(sim, call, label):
    before = snapshot(sim)
    try:
        call()
    except StepSequenceError as e:
        reach(label)
        check_same(label + "/state_unchanged", before, snapshot(sim))
        return
    check(label + "/must_raise", False)


@unit("C20/out-of-order/second-before-first", expect_reach=("err",))
def second_before_first():
    sim, _ = boundary_state()
    assume(sim.state.loaded_instruction is not None)
    expect_sequence_error(sim, lambda: sim.second_cycle_step(), "err")


@unit("C20/out-of-order/first-twice-and-step-mid-instruction", expect_reach=("err-first", "err-step"))
def first_twice():
    sim, _ = boundary_state()
    assume(sim.state.loaded_instruction is not None)
    sim.first_cycle_step()
    check("mid_instruction", sim.next_cycle == 2)
    assume(sim.state.loaded_instruction is not None)
    expect_sequence_error(sim, lambda: sim.first_cycle_step(), "err-first")
    expect_sequence_error(sim, lambda: sim.step(), "err-step")


@unit("C20/done-is-noop", expect_reach=("noop",))
def done_noop():
    sim, _ = boundary_state()
    assume(sim.state.loaded_instruction is None)
    before = snapshot(sim)
    sim.first_cycle_step()
    sim.second_cycle_step()
    sim.single_step()
    r = sim.step()
    reach("noop")
    check("step_returns_false", r is False)
    check_same("nothing_changes", before, snapshot(sim))


@unit("C20/done-implies-boundary")
def done_implies_boundary():
    """is_done() can only become true in second_cycle_step, which sets next_cycle = 1 (needed by done-is-noop)."""
    sim, _ = boundary_state()
    assume(sim.state.loaded_instruction is not None)
    sim.first_cycle_step()
    check("not_done_mid_instruction", sim.is_done() is False)
    sim.second_cycle_step()
    check("boundary_after_second", sim.next_cycle == 1)


@unit("C20/canary/halves-differ", canary=True)
def canary_halves():
    a, b = twin()
    assume(a.state.loaded_instruction is not None)
    a.step()
    b.first_cycle_step()
    check_same("first_half_alone_equals_step", snapshot(a), snapshot(b))
