"""C07 (retire times / cycle count follow the documented schedule) and C08 (hazard detection off = interlock-free
pipeline) on the real five-stage pipeline, against the reference scheduler spec/sched.py.

Programs are the templates of C02 (all register numbers and contents symbolic => every hazard pattern at
distance 1,2,3; taken / not-taken control transfers; ecalls).  The dynamic trace comes from the real single-cycle
run on a twin state (proved equal to the ISA in C01)."""
from pyvc.api import *
from fixedint import UInt32
from architecture_simulator.simulation.riscv_simulation import RiscvSimulation
from architecture_simulator.simulation.runtime_errors import InstructionExecutionException
from architecture_simulator.isa.riscv.instruction_types import (
    RTypeInstruction, ITypeInstruction, STypeInstruction, BTypeInstruction, UTypeInstruction, JTypeInstruction, EmptyInstruction)
from architecture_simulator.isa.riscv.rv32i_instructions import ADD, ADDI, LW, SW, SB, BEQ, BNE, BLT, JAL, JALR, LUI, MUL, ECALL
from contracts.rvcommon import *
from contracts.c02_pipeline import twin_states, load, R, NOP, PRODUCERS, CONSUMERS, HEADS, VICTIMS, MIX
from spec.sched import Entry, schedule
from spec.smem import SpecMemory


def entry_for(ins, taken, exits):
    if isinstance(ins, ECALL):
        return Entry([], None, False, True, exits)
    if isinstance(ins, RTypeInstruction) or isinstance(ins, STypeInstruction) or isinstance(ins, BTypeInstruction):
        reads = [ins.rs1, ins.rs2]
    elif isinstance(ins, ITypeInstruction):
        reads = [ins.rs1]
    else:
        reads = []
    writes = isinstance(ins, RTypeInstruction) or isinstance(ins, ITypeInstruction) or isinstance(ins, UTypeInstruction) or isinstance(ins, JTypeInstruction)
    wr = ins.rd if writes else None
    return Entry(reads, wr, taken or isinstance(ins, JAL) or isinstance(ins, JALR), False, False)


def trace_of(sim, max_steps=12):
    """dynamic trace of the single-cycle run (control flow is concrete per path)"""
    st = sim.state
    trace = []
    addrs = []
    n = 0
    while not sim.is_done():
        n = n + 1
        if n > max_steps:
            return None, None
        pc = st.program_counter
        ins = st.instruction_memory.instructions[pc]
        b0 = st.performance_metrics.branch_count
        sim.step()
        taken = split(st.performance_metrics.branch_count != b0)
        trace.append(entry_for(ins, taken, isinstance(ins, ECALL) and st.exit_code is not None))
        addrs.append(pc)
    return trace, addrs


def retire_log(sim, max_steps=40):
    st = sim.state
    log = []
    n = 0
    c0 = st.performance_metrics.cycles
    while not sim.is_done():
        n = n + 1
        if n > max_steps:
            return None, None
        before = st.performance_metrics.cycles
        sim.step()
        check("cycle_counter_advances_by_one", st.performance_metrics.cycles == before + 1)
        pr = st.pipeline.pipeline_registers[4]
        if not isinstance(pr.instruction, EmptyInstruction):
            log.append((pr.address_of_instruction, n))
    return log, n


def timing(make_program, detect=True, prepare=None):
    a, b, regs0 = twin_states(detect)
    if prepare is not None:
        prepare(a)
        prepare(b)
    load(a, make_program())
    load(b, make_program())
    try:
        trace, addrs = trace_of(RiscvSimulation(state=a))
    except InstructionExecutionException as e:
        reach("fault")
        return
    if trace is None:
        check("single_cycle_terminates_within_bound", False)
        return
    try:
        log, total = retire_log(RiscvSimulation(state=b))
    except InstructionExecutionException as e:
        if detect:
            check("five_stage_faults_only_if_single_cycle_does", False)
        reach("fault")
        return
    if log is None:
        check("five_stage_terminates_within_bound", False)
        return
    reach("finished")
    ref_retire, ref_total = schedule(trace, interlock=detect)
    check("same_retired_instruction_order", [x for (x, _) in log] == addrs)
    check("retire_cycles_match_documented_schedule", [c for (_, c) in log] == ref_retire)
    check("total_cycles_match_documented_schedule", total == ref_total)


# ------------------------------------------------------------------------------------ C07
def c07_pair(pn, cn, dist, tier):
    @unit("C07/pair/%s-then-%s/distance=%d" % (pn, cn, dist), tier=tier, expect_reach=("finished",))
    def u():
        def prog():
            p = [PRODUCERS[pn]()]
            for _ in range(dist - 1):
                p.append(NOP())
            p.append(CONSUMERS[cn]())
            p.append(ADDI(R("t_rd"), R("t_rs1"), 1))
            return p
        timing(prog)


for _pn in ("add", "lw", "lui"):
    for _cn in ("add", "sw", "beq+8"):
        for _d in (1, 2, 3):
            _q = (_pn == "add" and _cn in ("add", "beq+8")) or (_pn == "lw" and _cn == "sw" and _d < 3)
            c07_pair(_pn, _cn, _d, "quick" if _q else "thorough")


def c07_control(h, v, tier, a7=None):
    @unit("C07/control/%s/then-%s" % (h, v), tier=tier, expect_reach=("finished",))
    def u():
        def prog():
            return HEADS[h]() + VICTIMS[v]() + [ADDI(R("z_rd"), R("z_rs1"), 5)]

        def prep(st):
            if a7 is not None:
                st.register_file.registers[17] = UInt32(a7)
        timing(prog, prepare=prep)


for _h in ("beq+12", "jal+12", "add-then-blt+12"):
    for _v in ("alu", "store", "print-ecall"):
        c07_control(_h, _v, "quick" if (_h, _v) in (("beq+12", "alu"), ("jal+12", "store"), ("beq+12", "print-ecall"), ("add-then-blt+12", "alu")) else "thorough",
                    a7=1 if _v == "print-ecall" else None)
c07_control("exit-ecall", "alu", "quick", a7=93)


def c07_mix(name):
    @unit("C07/mix/" + name, expect_reach=("finished",))
    def u():
        prog, a7 = MIX[name]

        def prep(st):
            st.register_file.registers[3] = UInt32(LO + 64)
            if a7 is not None:
                st.register_file.registers[17] = UInt32(a7)
        timing(prog, prepare=prep)


for _n in MIX:
    c07_mix(_n)


@unit("C07/ecall/held-until-older-left-mem", expect_reach=("finished",))
def ecall_hold():
    def prog():
        return [LW(10, R("l_rs1"), sym_int("l_imm", -2048, 2047)), ADD(5, 6, 7), ECALL(), ADDI(8, 8, 5), ECALL()]

    def prep(st):
        st.register_file.registers[17] = UInt32(36)
    timing(prog, prepare=prep)


def independent_unit(n):
    @unit("C07/straight-line/n=%d-independent-instructions-take-n+4" % n, expect_reach=("done",))
    def u():
        st, regs0 = havoc_state("five_stage_pipeline")
        prog = []
        for i in range(n):
            prog.append(ADD(R("rd%d" % i), R("rs1_%d" % i), R("rs2_%d" % i)))
        # mutually independent: no instruction reads a register written by an earlier one (x0 is never written)
        for i in range(n):
            for j in range(i + 1, n):
                assume((prog[i].rd == 0) | ((prog[i].rd != prog[j].rs1) & (prog[i].rd != prog[j].rs2)))
        load(st, prog)
        sim = RiscvSimulation(state=st)
        c0 = st.performance_metrics.cycles
        k = 0
        while not sim.is_done():
            k = k + 1
            if k > 3 * n + 10:
                check("terminates", False)
                return
            sim.step()
        reach("done")
        check("n_plus_4_cycles", st.performance_metrics.cycles == c0 + n + 4 and k == n + 4)
        check("no_stall_no_flush", st.performance_metrics.stalls == 0 and st.performance_metrics.flushes == 0)
        check("all_retired", st.performance_metrics.instruction_count == sym_int("icount", 0) + n)


for _n in (1, 2, 3, 4, 5, 6):
    independent_unit(_n)


class PenaltyMemory(SpecMemory):
    """S-MEM whose counted accesses cost an arbitrary miss penalty, as the cache systems are proved to do (C09):
    every counted access adds its own symbolic amount >= 0 to performance_metrics.cycles; `charged` is the ghost sum."""

    def charge(self, counted):
        if counted:
            p = sym_int("penalty%d" % self.n_acc, 0)
            self.n_acc = self.n_acc + 1
            self.pm.cycles = self.pm.cycles + p
            self.charged = self.charged + p

    def read_byte(self, address, update_statistics=True):
        r = super().read_byte(address, update_statistics)
        self.charge(update_statistics)
        return r

    def read_halfword(self, address, update_statistics=True):
        r = super().read_halfword(address, update_statistics)
        self.charge(update_statistics)
        return r

    def read_word(self, address, update_statistics=True):
        r = super().read_word(address, update_statistics)
        self.charge(update_statistics)
        return r

    def write_byte(self, address, value, directly_write_to_lower_memory=False):
        super().write_byte(address, value, directly_write_to_lower_memory)
        self.charge(not directly_write_to_lower_memory)

    def write_halfword(self, address, value, directly_write_to_lower_memory=False):
        super().write_halfword(address, value, directly_write_to_lower_memory)
        self.charge(not directly_write_to_lower_memory)

    def write_word(self, address, value, directly_write_to_lower_memory=False):
        super().write_word(address, value, directly_write_to_lower_memory)
        self.charge(not directly_write_to_lower_memory)


def penalty_unit(mn, mode):
    @unit("C07/step-cycles/%s/%s" % (mode, mn), expect_reach=("stepped",), ghost=True)
    def u():
        if native():
            check("ghost_unit_not_replayable", True)
            reach("stepped")
            return
        st, regs0 = havoc_state(mode)
        mem = PenaltyMemory(st.memory.L, LO)
        mem.pm = st.performance_metrics
        mem.n_acc = 0
        mem.charged = 0
        st.memory = mem
        ins, rd, rs1, rs2, imm = build(mn)
        pc = sym_int("pc", 0, IMEM_TOP - 4)
        place(st, ins, pc)
        sim = RiscvSimulation(state=st)
        steps = 1 if mode == "single_stage_pipeline" else 5
        for i in range(steps):
            c0 = st.performance_metrics.cycles
            g0 = mem.charged
            n0 = mem.n_acc
            try:
                sim.step()
            except InstructionExecutionException as e:
                return
            check("cycles_advance_by_one_plus_penalties_of_this_step", st.performance_metrics.cycles == c0 + 1 + (mem.charged - g0))
            check("at_most_one_counted_access_per_step", mem.n_acc - n0 <= 1)
        reach("stepped")
        is_mem = mn in ("lb", "lh", "lw", "lbu", "lhu", "sb", "sh", "sw")
        check("each_load_or_store_makes_exactly_one_counted_access", mem.n_acc == (1 if is_mem else 0))


for _mode in ("single_stage_pipeline", "five_stage_pipeline"):
    for _mn in ("lw", "lb", "lhu", "sw", "sb", "sh", "add", "beq", "jal"):
        penalty_unit(_mn, _mode)


@unit("C07/canary/distance-2-needs-no-stall", canary=True)
def canary_timing():
    st, regs0 = havoc_state("five_stage_pipeline")
    load(st, [ADD(5, 6, 7), NOP(), ADD(8, 5, 5)])
    sim = RiscvSimulation(state=st)
    c0 = st.performance_metrics.cycles
    while not sim.is_done():
        sim.step()
    check("three_instructions_take_seven_cycles", st.performance_metrics.cycles == c0 + 7)


# ------------------------------------------------------------------------------------ C08
def c08_pair(pn, cn, dist, tier):
    @unit("C08/timing/%s-then-%s/distance=%d" % (pn, cn, dist), tier=tier, expect_reach=("finished",))
    def u():
        def prog():
            p = [PRODUCERS[pn]()]
            for _ in range(dist - 1):
                p.append(NOP())
            p.append(CONSUMERS[cn]())
            p.append(ADDI(R("t_rd"), R("t_rs1"), 1))
            return p
        timing(prog, detect=False)


# (consumers whose outcome steers control flow are excluded here: with stale operands the executed path differs
#  from the single-cycle trace that feeds the scheduler; they are covered by the bounded interlock-free interpreter)
for _pn in ("add", "lw"):
    for _cn in ("add", "sw"):
        for _d in (1, 2, 3):
            c08_pair(_pn, _cn, _d, "quick" if (_pn == "add" and _d < 3) else "thorough")


# ---- C08: decode never stalls when hazard detection is off (arbitrary instructions in the later latches)
from architecture_simulator.uarch.riscv.stages import InstructionDecodeStage
from architecture_simulator.uarch.riscv.pipeline_registers import (
    PipelineRegister, InstructionFetchPipelineRegister, InstructionDecodePipelineRegister, ExecutePipelineRegister)
from spec import rv32im as S


def id_stage_unit(detect):
    @unit("C0%d/InstructionDecodeStage.behavior/detect=%s" % (2 if detect else 8, detect), expect_reach=("decoded",))
    def u():
        st, regs0 = havoc_state("five_stage_pipeline", detect)
        cons = ADD(R("c_rd"), R("c_rs1"), R("c_rs2"))
        p1 = ADD(R("p1_rd"), 1, 2)
        p2 = LW(R("p2_rd"), 1, 0)
        latches = [InstructionFetchPipelineRegister(instruction=cons, address_of_instruction=8, pc_plus_instruction_length=12,
                                                    control_unit_signals=cons.control_unit_signals()),
                   InstructionDecodePipelineRegister(instruction=p1) if sym_bool("ex_occupied") else PipelineRegister(),
                   ExecutePipelineRegister(instruction=p2) if sym_bool("mem_occupied") else PipelineRegister(),
                   PipelineRegister(), PipelineRegister()]
        ex_occ = type(latches[1]) is InstructionDecodePipelineRegister
        mem_occ = type(latches[2]) is ExecutePipelineRegister
        before = snapshot(st)
        out = InstructionDecodeStage(detect_data_hazards=detect).behavior(latches, 0, st)
        reach("decoded")
        hz = False
        if ex_occ:
            hz = hz | ((p1.rd != 0) & ((p1.rd == cons.rs1) | (p1.rd == cons.rs2)))
        if mem_occ:
            hz = hz | ((p2.rd != 0) & ((p2.rd == cons.rs1) | (p2.rd == cons.rs2)))
        if detect:
            check("stalls_iff_source_written_by_instruction_in_EX_or_MEM", (out.stall_signal is not None) == hz)
            check("stall_is_two_cycles", implies(hz, out.stall_signal is not None and out.stall_signal.duration == 2))
        else:
            check("never_stalls", out.stall_signal is None)
        check("operands_are_the_register_file_at_decode_time", out.register_read_data_1 == int(regs0[cons.rs1])
              and out.register_read_data_2 == int(regs0[cons.rs2]) and out.write_register == cons.rd)
        check_same("decode_has_no_architectural_effect", before, snapshot(st))


id_stage_unit(True)
id_stage_unit(False)


def stale_unit(pn, cn, dist, tier="quick"):
    @unit("C08/stale-read/%s-then-%s/distance=%d" % (pn, cn, dist), tier=tier, expect_reach=("finished",))
    def u():
        """straight-line program, hazard detection off: an instruction sees exactly the writes of instructions at least
        three slots ahead of it (those have completed write-back when it decodes)."""
        st, regs0 = havoc_state("five_stage_pipeline", False)
        prog = [PRODUCERS[pn]()]
        for _ in range(dist - 1):
            prog.append(NOP())
        prog.append(CONSUMERS[cn]())
        prog.append(ADD(R("t_rd"), R("t_rs1"), R("t_rs2")))
        load(st, prog)
        k = sym_int("k", 0, TOP - 1)
        mem0_k = byte_at(st.memory, k)
        rd8 = lambda a: byte_at(st.memory, a)
        # reference: execute in order; instruction j reads registers as left by instructions 0..j-3
        views = [list(regs0)]        # views[j] = register file after instructions 0..j-1 have written
        fault_at = None
        want_k = mem0_k
        effects = []
        for j, ins in enumerate(prog):
            vis = views[max(0, j - 2)]
            mn = ins.mnemonic
            rd_ = ins.rd if hasattr(ins, "rd") else None
            rs1_ = ins.rs1 if hasattr(ins, "rs1") else None
            rs2_ = ins.rs2 if hasattr(ins, "rs2") else None
            e = S.step(mn, rd_, rs1_, rs2_, ins.imm if hasattr(ins, "imm") else 0, lambda i, vis=vis: int(vis[i]), rd8, 4 * j, LO)
            effects.append(e)
            nxt = list(views[j])
            if e.rd is not None:
                nxt[e.rd] = UInt32(ite(e.rd == 0, 0, e.value))      # x0 stays zero
            views.append(nxt)
        sim = RiscvSimulation(state=st)
        n = 0
        try:
            while not sim.is_done():
                n = n + 1
                if n > 30:
                    check("terminates", False)
                    return
                sim.step()
        except InstructionExecutionException as ex:
            reach("fault")
            check("faults_only_if_reference_faults", effects[0].fault | effects[len(prog) - 2].fault | effects[len(prog) - 1].fault)
            return
        reach("finished")
        check("no_reference_fault", not (effects[0].fault | effects[len(prog) - 2].fault))
        final = views[len(prog)]
        check("registers_follow_interlock_free_semantics", all_of([int(st.register_file.registers[r]) == int(final[r]) for r in range(32)]))
        # stores write the value their data register had at decode time (no load follows a store in these templates, so
        # the loads' view of memory is the initial one)
        want_k = mem0_k
        for e in effects:
            for (a, b) in e.stores:
                want_k = ite(a == k, b, want_k)
        check("data_memory_follows_interlock_free_semantics", byte_at(st.memory, k) == want_k)
        check("no_decode_stall", st.performance_metrics.stalls == 0)
        check("cycles_n_plus_4", n == len(prog) + 4)


for _pn in ("add", "lw"):
    for _cn in ("add", "sw"):
        for _d in (1, 2, 3):
            stale_unit(_pn, _cn, _d)


@unit("C08/nop-padded/equals-single-cycle", expect_reach=("finished",))
def nop_padded():
    """two nops behind every instruction => all dependencies are >= 3 slots apart => same results as single-cycle mode"""
    from contracts.c02_pipeline import equivalence

    def prog():
        body = [ADD(R("p_rd"), R("p_rs1"), R("p_rs2")), LW(R("l_rd"), R("l_rs1"), sym_int("l_imm", -2048, 2047)),
                BEQ(R("b_rs1"), R("b_rs2"), 24), SW(6, 7, 4), ADDI(R("z_rd"), R("z_rs1"), 5)]
        out = []
        for ins in body:
            out.append(ins)
            out.append(NOP())
            out.append(NOP())
        return out
    equivalence(prog, detect=False, steps_b=60, steps_a=30)


@unit("C08/control-and-ecall-still-handled", expect_reach=("finished",))
def c08_control():
    from contracts.c02_pipeline import equivalence

    def prog():
        # no register dependencies at all: only control hazards and ecall draining are at stake
        return [BEQ(0, 0, 12), SW(6, 7, 4), ECALL(), JAL(0, 8, 0), ADDI(5, 5, 1), ECALL(), ADDI(8, 8, 1)]

    def prep(st):
        st.register_file.registers[17] = UInt32(1)
    equivalence(prog, detect=False, prepare=prep)


def c08_ecall_behind_transfer(name, head):
    @unit("C08/control/ecall-directly-behind-%s" % name, expect_reach=("finished",))
    def u():
        """hazard detection off; no register dependencies closer than three slots: results AND timing as with the
        documented pipeline -- in particular a wrong-path ecall right behind a taken branch/jump has no effect"""
        from contracts.c02_pipeline import equivalence

        def prog():
            return head() + [ECALL(), ADDI(5, 5, 1), ADDI(9, 9, 5), ADDI(10, 10, 5)]

        def prep(st):
            st.register_file.registers[17] = UInt32(1)
        equivalence(prog, detect=False, prepare=prep)
        timing(prog, detect=False, prepare=prep)


c08_ecall_behind_transfer("beq+12", lambda: [BEQ(R("b_rs1"), R("b_rs2"), 12)])
c08_ecall_behind_transfer("jal+12", lambda: [JAL(sym_int("j_rd", 0, 4), 12, 12)])


def c08_consumer_behind_draining_ecall(pn, cn):
    @unit("C08/ecall-drain/%s-then-ecall-then-%s" % (pn, cn), expect_reach=("finished",))
    def u():
        """hazard detection off: an ecall waits in EX until the older instructions have left MEM; the instruction behind
        it waits in ID meanwhile and is decoded again in every cycle of that wait, so what it carries into EX is the
        register file as the older instructions left it ("observes exactly the writes completed by that cycle").  With
        an ecall between producer and consumer every older write has completed: results equal single-cycle mode, for
        every register aliasing (the producer may write a0, which the ecall prints)."""
        from contracts.c02_pipeline import equivalence

        def prog():
            p = PRODUCERS[pn]()
            assume(p.rd != 17)          # (a7 selects the service; it stays "print a0 as integer")
            return [p, ECALL(), CONSUMERS[cn](), NOP(), NOP(), ADD(R("t_rd"), R("t_rs1"), R("t_rs2"))]

        def prep(st):
            st.register_file.registers[17] = UInt32(1)
        equivalence(prog, detect=False, prepare=prep, steps_b=60, steps_a=30)


for _pn in ("add", "lw"):
    for _cn in ("add", "sw"):
        c08_consumer_behind_draining_ecall(_pn, _cn)


@unit("C08/canary/distance-2-sees-new-value", canary=True)
def canary_c08():
    st, regs0 = havoc_state("five_stage_pipeline", False)
    load(st, [ADDI(5, 0, 7), NOP(), ADDI(6, 5, 0)])
    sim = RiscvSimulation(state=st)
    while not sim.is_done():
        sim.step()
    check("consumer_sees_7", int(st.register_file.registers[6]) == 7)


# ---- C08: with hazard detection off a lone instruction still has its full architectural effect -- control transfers
# in particular are still resolved (every target, incl. address 0), loads/stores still fault as the ISA says
from contracts.c02_pipeline import single_instruction


def c08_single(mn):
    @unit("C08/single-instruction/detection-off/" + mn, expect_reach=("normal",))
    def u():
        single_instruction(mn, detect=False)


for _mn in ("jalr", "jal", "beq", "bne", "blt", "bge", "bltu", "bgeu", "lw", "sw", "add"):
    c08_single(_mn)
