"""C09, program-level clause: every executed load or store performs exactly one COUNTED data-memory access, in
single-cycle mode (where the stage re-reads the loaded value for display -- that read must be uncounted) and in
five-stage mode; other instructions perform none.  Hence the counters count each load/store once and are identical
in both modes (the cache-level accounting itself is proved per access in contracts/cache.py)."""
from pyvc.api import *
from architecture_simulator.simulation.riscv_simulation import RiscvSimulation
from architecture_simulator.simulation.runtime_errors import InstructionExecutionException
from contracts.rvcommon import *

MEMOPS = ("lb", "lh", "lw", "lbu", "lhu", "sb", "sh", "sw")


class Counting:
    """delegating wrapper around the data memory that counts counted / uncounted accesses (works natively too)"""

    def __init__(self, inner):
        self.inner = inner
        self.counted = 0
        self.uncounted = 0

    def _c(self, counted):
        if counted:
            self.counted = self.counted + 1
        else:
            self.uncounted = self.uncounted + 1

    def read_byte(self, address, update_statistics=True):
        self._c(update_statistics)
        return self.inner.read_byte(address, update_statistics)

    def read_halfword(self, address, update_statistics=True):
        self._c(update_statistics)
        return self.inner.read_halfword(address, update_statistics)

    def read_word(self, address, update_statistics=True):
        self._c(update_statistics)
        return self.inner.read_word(address, update_statistics)

    def write_byte(self, address, value, directly_write_to_lower_memory=False):
        self._c(not directly_write_to_lower_memory)
        return self.inner.write_byte(address, value, directly_write_to_lower_memory)

    def write_halfword(self, address, value, directly_write_to_lower_memory=False):
        self._c(not directly_write_to_lower_memory)
        return self.inner.write_halfword(address, value, directly_write_to_lower_memory)

    def write_word(self, address, value, directly_write_to_lower_memory=False):
        self._c(not directly_write_to_lower_memory)
        return self.inner.write_word(address, value, directly_write_to_lower_memory)


def program_unit(mn, mode):
    @unit("C09/program-level/%s/%s" % (mode, mn), expect_reach=("retired",))
    def u():
        st, regs0 = havoc_state(mode)
        st.memory = Counting(st.memory)
        ins, rd, rs1, rs2, imm = build(mn)
        pc = sym_int("pc", 0, IMEM_TOP - 4)
        place(st, ins, pc)
        sim = RiscvSimulation(state=st)
        try:
            for i in range(1 if mode == "single_stage_pipeline" else 5):
                sim.step()
        except InstructionExecutionException as e:
            check("a_faulting_access_is_attempted_once", st.memory.counted <= 1)
            return
        reach("retired")
        check("exactly_one_counted_access_per_load_or_store", st.memory.counted == (1 if mn in MEMOPS else 0))
        check("display_re_reads_are_uncounted_and_only_for_loads", st.memory.uncounted <= (1 if mn in MEMOPS[:5] and mode == "single_stage_pipeline" else 0))


for _mode in ("single_stage_pipeline", "five_stage_pipeline"):
    for _mn in MEMOPS + ("add", "beq", "jalr", "lui"):
        program_unit(_mn, _mode)


def ecall_unit(code, mode):
    @unit("C09/program-level/%s/ecall/a7=%d" % (mode, code), expect_reach=("retired",), bounded="strings of at most 6 bytes" if code == 4 else None)
    def u():
        """ecalls are not loads or stores: what the simulator itself reads for them (the bytes of a printed string) is
        not counted"""
        st, regs0 = havoc_state(mode)
        st.register_file.registers[17] = UInt32(code)
        if code == 4:
            # a string of at most 6 bytes at a valid address: bytes arbitrary, a terminator within reach
            a0 = sym_int("a0", LO, TOP - 8)
            st.register_file.registers[10] = UInt32(a0)
            n = sym_int("strlen", 0, 5)
            st.memory.write_byte(a0 + n, UInt8(0), True)
        st.memory = Counting(st.memory)
        ins, _, _, _, _ = build("ecall")
        pc = sym_int("pc", 0, IMEM_TOP - 4)
        place(st, ins, pc)
        sim = RiscvSimulation(state=st)
        try:
            for i in range(1 if mode == "single_stage_pipeline" else 5):
                sim.step()
        except InstructionExecutionException as e:
            return
        reach("retired")
        check("an_ecall_makes_no_counted_data_access", st.memory.counted == 0)


from fixedint import UInt8, UInt32
for _mode in ("single_stage_pipeline", "five_stage_pipeline"):
    for _code in (1, 4, 11, 93):
        ecall_unit(_code, _mode)
