"""Shared state builders for the RISC-V contracts (C01, C02, C07, C08, C09, C13)."""
from pyvc.api import *
from fixedint import UInt8, UInt32
from architecture_simulator.settings.settings import Settings
from architecture_simulator.uarch.riscv.riscv_architectural_state import RiscvArchitecturalState
from architecture_simulator.uarch.riscv.register_file import RegisterFile, Registers
from architecture_simulator.uarch.memory.memory import Memory, AddressingType
from architecture_simulator.isa.riscv.rv32i_instructions import instruction_map
from architecture_simulator.isa.riscv.instruction_types import (
    RTypeInstruction, ITypeInstruction, ShiftITypeInstruction, MemoryITypeInstruction, STypeInstruction,
    BTypeInstruction, UTypeInstruction, JTypeInstruction)
from spec.smem import SpecMemory, SpecWordMemory

LO = Settings().get()["memory_address_min_bytes"]
IMEM_TOP = Settings().get()["instruction_memory_max_bytes"]
TOP = 2 ** 32
OUT0 = "<previous output>"

EXCLUDED = ("csrrw", "csrrs", "csrrc", "csrrwi", "csrrsi", "csrrci", "fence", "ebreak")
MNEMONICS = [m for m in instruction_map if m not in EXCLUDED]


def data_memory(name="L", word_contained=False):
    """Symbolically: the S-MEM specification object.  Natively (replay): the real flat Memory with the model's content."""
    if native():
        m = Memory(AddressingType.BYTE, 32, True, range(LO, TOP))
        m.memory_file = sym_map(name, UInt8)
        return m
    return SpecMemory(sym_map(name, UInt8), LO, word_contained)


def word_memory(name="MW"):
    """backing store of the cache proofs.  Symbolically: S-MEM kept per word.  Natively: the real flat Memory, filled
    from the model's words (replay of a counter-model) and/or bytes (adjudication: lazily materialised bytes; replay of
    an input found by adjudication: those bytes)."""
    if native():
        from pyvc import api as _api
        m = Memory(AddressingType.BYTE, 32, True, range(LO, TOP))
        if _api.LAZY[0] is not None:
            m.memory_file = sym_map(name + "_bytes", UInt8)
            return m
        words = sym_map(name, UInt32)
        m.memory_file = {}
        for w in words:
            for k in range(4):
                m.memory_file[w + k] = UInt8((int(words[w]) >> (8 * k)) & 255)
        m.memory_file.update(sym_map(name + "_bytes", UInt8))
        return m
    return SpecWordMemory(sym_map(name, UInt32), LO)


def byte_at(mem, a):
    if native():
        if hasattr(mem, "cache"):          # (native stand-in for a word-contained S-MEM: a write-through cache system)
            mem = mem.memory
        return int(mem.memory_file.get(a, UInt8(0)))
    return mem.byte(a)


def word_contained_memory(st, name="L"):
    """the data memory of a simulation with a data cache, as far as instruction execution can tell: S-MEM with the
    word-containment rule (C03).  Natively: a real write-through cache system (backing store == logical contents) over
    the flat memory holding the model's bytes."""
    if native():
        from architecture_simulator.uarch.memory.write_through_memory_system import WriteThroughMemorySystem
        flat = Memory(AddressingType.BYTE, 32, True, range(LO, TOP))
        flat.memory_file = sym_map(name, UInt8)
        return WriteThroughMemorySystem(memory=flat, num_index_bits=0, num_block_bits=0, associativity=1,
                                        performance_metrics=st.performance_metrics, miss_penality=0, replacement_strategy="lru")
    return SpecMemory(sym_map(name, UInt8), LO, True)


def havoc_state(mode="single_stage_pipeline", detect=True, tag=""):
    """Any architectural state: real constructor, then arbitrary registers (x0 = 0), data memory, counters."""
    st = RiscvArchitecturalState(pipeline_mode=mode, detect_data_hazards=detect)
    regs = sym_list("x" + tag, 32, UInt32)
    regs[0] = UInt32(0)
    st.register_file.registers = Registers(regs)
    st.memory = data_memory("L" + tag)
    pm = st.performance_metrics
    pm.instruction_count = sym_int("icount" + tag, 0)
    pm.branch_count = sym_int("bcount" + tag, 0)
    pm.procedure_count = sym_int("pcount" + tag, 0)
    pm.cycles = sym_int("cycles" + tag, 0)
    st.output = OUT0
    return st, list(regs)


def build(mn, tag=""):
    """Instance of the class for mnemonic mn through its real constructor, all fields symbolic.
    Returns (instruction, rd, rs1, rs2, imm) with unused fields None."""
    cls = instruction_map[mn]
    rd = sym_int("rd" + tag, 0, 31)
    rs1 = sym_int("rs1" + tag, 0, 31)
    rs2 = sym_int("rs2" + tag, 0, 31)
    # every encodable immediate and far beyond (41 bits); that the constructors keep exactly the low bits,
    # sign-extended, for EVERY Python integer is the separate unit C01/constructors/immediates.  A finite
    # interval lets mask-heavy obligations be decided as bit-vectors.
    imm = sym_int("imm" + tag, -2 ** 40, 2 ** 40)
    if issubclass(cls, RTypeInstruction):
        return cls(rd=rd, rs1=rs1, rs2=rs2), rd, rs1, rs2, None
    if mn == "ecall":
        return cls(), None, None, None, None
    if issubclass(cls, ITypeInstruction):
        return cls(rd=rd, rs1=rs1, imm=imm), rd, rs1, None, imm
    if issubclass(cls, STypeInstruction) or issubclass(cls, BTypeInstruction):
        return cls(rs1=rs1, rs2=rs2, imm=imm), None, rs1, rs2, imm
    if issubclass(cls, UTypeInstruction):
        return cls(rd=rd, imm=imm), rd, None, None, imm
    if issubclass(cls, JTypeInstruction):
        return cls(rd=rd, imm=imm, abs_addr=sym_int("abs" + tag)), rd, None, None, imm
    raise ValueError(mn)


def place(st, ins, pc):
    """The program consists of `ins` at address pc and nothing else."""
    st.instruction_memory.instructions = {pc: ins}
    st.program_counter = pc
