"""C13 -- lifecycle: done is stable, run equals stepping, empty program is done, reload starts from reset memories."""
from pyvc.api import *
from fixedint import UInt32, UInt16
from architecture_simulator.simulation.riscv_simulation import RiscvSimulation
from architecture_simulator.simulation.toy_simulation import ToySimulation
from architecture_simulator.simulation.runtime_errors import InstructionExecutionException
from architecture_simulator.isa.riscv.riscv_parser import RiscvParser
from architecture_simulator.isa.riscv.rv32i_instructions import ADD, ADDI, LW, SW, BEQ, ECALL, JAL
from architecture_simulator.uarch.memory.cache import CacheOptions
from contracts.rvcommon import *
from contracts.c02_pipeline import load, R

TIMER = ("_start", "_execution_time_s")


def midflight(mode, steps):
    st, regs0 = havoc_state(mode)
    load(st, [ADDI(5, R("a"), 7), ADD(6, 5, R("b")), SW(R("c"), 6, 8), BEQ(5, 6, 8), ADDI(7, 7, 1), ECALL()])
    sim = RiscvSimulation(state=st)
    for _ in range(steps):
        try:
            sim.step()
        except InstructionExecutionException as e:
            return None
    return sim


def done_unit(mode):
    @unit("C13/%s/step-and-run-when-done-change-nothing" % mode.split("_")[0], expect_reach=("exit", "ran-off"))
    def u():
        # (a) done because an exit code is set, with whatever is still in the latches
        sim = midflight(mode, split(sym_int("steps", 0, 4)))
        if sim is None:
            return
        sim.state.exit_code = sym_int("code")
        check("done_when_exit_code_set", sim.is_done() is True)
        before = snapshot(sim, ignore=TIMER)
        r = sim.step()
        check("step_returns_false", r is False)
        check_same("step_changes_nothing", before, snapshot(sim, ignore=TIMER))
        sim.run()
        check_same("run_changes_nothing_but_the_timer", before, snapshot(sim, ignore=TIMER))
        check("still_done", sim.is_done() is True)
        reach("exit")
        # (b) done because nothing is in flight and nothing is at pc
        st, regs0 = havoc_state(mode)
        load(st, [ADDI(5, 5, 1)])
        st.program_counter = 4 * sym_int("slot", 1, 4000)
        sim = RiscvSimulation(state=st)
        check("done_when_nothing_at_pc", sim.is_done() is True)
        before = snapshot(sim, ignore=TIMER)
        r = sim.step()
        check("step_returns_false_2", r is False)
        check_same("step_changes_nothing_2", before, snapshot(sim, ignore=TIMER))
        reach("ran-off")


def run_unit(mode):
    @unit("C13/%s/run-equals-stepping-until-done" % mode.split("_")[0], expect_reach=("finished",))
    def u():
        a, _ = havoc_state(mode)
        b, _ = havoc_state(mode)
        prog = lambda: [ADDI(5, R("a"), 7), BEQ(5, R("b"), 12), SW(R("c"), 5, 8), ADD(6, 5, 5), ADDI(17, 0, 93), ECALL(), ADDI(9, 9, 9)]
        load(a, prog())
        load(b, prog())
        sa, sb = RiscvSimulation(state=a), RiscvSimulation(state=b)
        fa = None
        fb = None
        try:
            sa.run()
        except InstructionExecutionException as e:
            fa = e
        last = True
        try:
            n = 0
            while not sb.is_done():
                n = n + 1
                last = sb.step()
        except InstructionExecutionException as e:
            fb = e
        check("same_fault", (fa is None) == (fb is None) and (fa is None or fa.address == fb.address))
        check_same("same_final_state", snapshot(sa, ignore=TIMER), snapshot(sb, ignore=TIMER))
        if fa is None:
            reach("finished")
            check("done_after_run", sa.is_done() is True)
            check("last_step_returned_false_exactly_when_done", last is False)


def step_return_unit():
    @unit("C13/five/step-returns-not-done", expect_reach=("stepped",))
    def u():
        sim = midflight("five_stage_pipeline", split(sym_int("steps", 0, 9)))
        if sim is None:
            return
        if sim.is_done():
            return
        try:
            r = sim.step()
        except InstructionExecutionException as e:
            return
        reach("stepped")
        check("returns_false_exactly_when_done_afterwards", r == (not sim.is_done()))
        check("has_started", sim.has_started is True)


for _m in ("single_stage_pipeline", "five_stage_pipeline"):
    done_unit(_m)
    run_unit(_m)
step_return_unit()


def not_started_unit(mode):
    @unit("C13/%s/not-started-means-untouched" % mode.split("_")[0], expect_reach=("stepped", "faulted") if mode == "single_stage_pipeline" else ("stepped",))
    def u():
        """whatever a step() call does -- complete, fault, or nothing because the simulation is done -- afterwards
        `has_started` is False only if the state is exactly what it was (so that 'has not started' really licenses
        the reload clause)"""
        st, regs0 = havoc_state(mode)
        load(st, [LW(5, R("a"), sym_int("imm", -2048, 2047)), ADDI(6, 6, 1)])
        if sym_bool("nothing_at_pc"):
            st.program_counter = 400
        sim = RiscvSimulation(state=st)
        check("fresh_simulation_has_not_started", sim.has_started is False)
        before = snapshot(sim, ignore=TIMER)
        try:
            sim.step()
            reach("stepped")
        except InstructionExecutionException as e:
            reach("faulted")
        if sim.has_started is False:
            check_same("not_started_implies_state_untouched", before, snapshot(sim, ignore=TIMER))
        else:
            check("started", sim.has_started is True)


not_started_unit("single_stage_pipeline")
not_started_unit("five_stage_pipeline")


@unit("C13/toy/not-started-means-untouched")
def toy_not_started():
    from contracts.toy import boundary_state
    sim, f = boundary_state()
    sim.has_started = False
    before = snapshot(sim, ignore=TIMER)
    sim.single_step()
    if sim.has_started is False:
        check_same("not_started_implies_state_untouched", before, snapshot(sim, ignore=TIMER))


@unit("C13/empty-program-is-done-immediately")
def empty_done():
    for mode in ("single_stage_pipeline", "five_stage_pipeline"):
        sim = RiscvSimulation(mode=mode)
        check("riscv_" + mode, sim.is_done() is True and sim.has_instructions() is False and sim.has_started is False)
        before = snapshot(sim, ignore=TIMER)
        check("step_false_" + mode, sim.step() is False)
        sim.run()
        check_same("nothing_happens_" + mode, before, snapshot(sim, ignore=TIMER))
    t = ToySimulation()
    check("toy", t.is_done() is True and t.has_instructions() is False)
    before = snapshot(t, ignore=TIMER)
    check("toy_step_false", t.step() is False)
    t.run()
    check_same("toy_nothing_happens", before, snapshot(t, ignore=TIMER))


def reload_unit(mode, cached):
    @unit("C13/%s/%s/load_program-resets-before-parsing" % (mode.split("_")[0], "cached" if cached else "uncached"), expect_reach=("parsed",))
    def u():
        """load_program on a simulation that has not started: at the moment the assembler starts, data memory, instruction
        memory and (if any) the caches with their instruction-cache counters are in their freshly constructed state,
        whatever earlier (successful or failed) loads left behind.  The assembler is replaced by a probe (stub)."""
        if cached:
            d = CacheOptions(enable=True, num_index_bits=0, num_block_bits=0, associativity=2, cache_type="wb", replacement_strategy="lru", miss_penalty=1)
            i = CacheOptions(enable=True, num_index_bits=0, num_block_bits=0, associativity=1, cache_type="wb", replacement_strategy="lru", miss_penalty=1)
            sim = RiscvSimulation(mode=mode, data_cache=d, instruction_cache=i)
            fresh = RiscvSimulation(mode=mode, data_cache=d, instruction_cache=i)
        else:
            sim = RiscvSimulation(mode=mode)
            fresh = RiscvSimulation(mode=mode)
        st = sim.state
        # leftovers of earlier loads (a load never runs the program: registers, pipeline, counters are untouched)
        if sym_bool("an_earlier_load_left_instructions"):       # (a failed or data-only load leaves data but no instructions)
            st.instruction_memory.write_instructions([ADDI(1, 1, 1), ADD(2, 2, 2)])
        if cached:
            st.memory.memory.memory_file = {LO: UInt8(sym_int("junk0", 0, 255)), LO + 5: UInt8(sym_int("junk1", 0, 255))}
        else:
            st.memory.memory_file = {LO: UInt8(sym_int("junk0", 0, 255)), LO + 5: UInt8(sym_int("junk1", 0, 255))}
        seen = []

        def probe(self_, program, state, **kw):
            seen.append(snapshot(state, ignore=TIMER))
            seen.append(state is st)
        stub(RiscvParser, "parse", probe)
        sim.load_program("nop")
        unstub(RiscvParser, "parse")
        reach("parsed")
        check("assembler_called_once_on_the_simulation's_state", len(seen) == 2 and seen[1] is True)
        if len(seen) == 2:
            check_same("state_at_parse_time_equals_a_fresh_simulation", seen[0], snapshot(fresh.state, ignore=TIMER))


from fixedint import UInt8
for _m in ("single_stage_pipeline", "five_stage_pipeline"):
    reload_unit(_m, False)
    reload_unit(_m, True)


@unit("C13/toy/load_program-rebuilds-the-state")
def toy_reload():
    from architecture_simulator.isa.toy.toy_parser import ToyParser
    from contracts.toy import boundary_state
    sim, f = boundary_state()
    old = sim.state
    seen = []

    def probe(self_, program, state, **kw):
        seen.append(snapshot(state, ignore=TIMER))
        seen.append(state is sim.state and state is not old)
    stub(ToyParser, "parse", probe)
    sim.load_program("NOP")
    unstub(ToyParser, "parse")
    check("assembler_gets_a_brand_new_state", len(seen) == 2 and seen[1] is True)
    if len(seen) == 2:
        check_same("which_equals_a_fresh_simulation's", seen[0], snapshot(ToySimulation().state, ignore=TIMER))


@unit("C13/canary/step-after-exit-still-steps", canary=True)
def canary_done():
    st, regs0 = havoc_state("single_stage_pipeline")
    load(st, [ADDI(5, 5, 1), ADDI(6, 6, 1)])
    sim = RiscvSimulation(state=st)
    before = snapshot(sim, ignore=TIMER)
    sim.step()
    check_same("nothing_changes", before, snapshot(sim, ignore=TIMER))


@unit("C13/toy/load_program-keeps-the-configured-memory-size")
def toy_reload_sized():
    """a TOY simulation configured with a smaller unified memory: the state handed to the assembler on (re)load is that of
    a fresh simulation of the SAME configuration"""
    from architecture_simulator.isa.toy.toy_parser import ToyParser
    size = [64, 1000, 4096][split(sym_int("which_size", 0, 2))]
    sim = ToySimulation(unified_memory_size=size)
    sim.state.accu = sym_fixed("accu", UInt16)
    seen = []

    def probe(self_, program, state, **kw):
        seen.append(snapshot(state, ignore=TIMER))
    stub(ToyParser, "parse", probe)
    sim.load_program("NOP")
    unstub(ToyParser, "parse")
    check("assembler_called_once", len(seen) == 1)
    if len(seen) == 1:
        check_same("state_equals_a_fresh_simulation_of_the_same_size", seen[0], snapshot(ToySimulation(unified_memory_size=size).state, ignore=TIMER))
    check("address_range_is_the_configured_one", sim.state.memory.address_range.start == 0 and sim.state.memory.address_range.stop == size)
