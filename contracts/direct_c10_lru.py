"""C10, LRU for EVERY associativity n >= 1 (not per enumerated n): the methods of the real class
architecture_simulator.uarch.memory.replacement_strategies.LRU are read from the tree under check, executed over a list
of symbolic length (pyvc/seqlist.py; list.remove / append / index / [0] / comprehension given their Python semantics as
formulas) and checked against the policy contract with ghost last-access times:

  Inv(s):  len(s.lru) == n, every entry in [0, n), pos is the inverse permutation (ghost, both directions), and the list
           is sorted by last access:  p < q  =>  last[lru[p]] < last[lru[q]]
  __init__(n) establishes Inv with "never accessed = oldest, in index order"; first victim is block 0
  access(i) with a newer time stamp preserves Inv, makes i the most recent, keeps the relative order of all other
           blocks, cannot raise, and a second access(i) changes nothing
  get_next_to_replace() returns a block whose last access is oldest; get_repr() reports ages ordered like last accesses,
           one per block, the victim has age 0; both are pure

A direct contract module: obligations are generated and discharged here (z3, quantifiers instantiated by the solver);
a counter-model is replayed on the real class with the model's n, order and time stamps.
"""
import ast
import importlib
import inspect

import z3

from pyvc import seqlist as SL

MOD = "architecture_simulator.uarch.memory.replacement_strategies"
I = z3.IntSort()


def _forall_range(v, n, body):
    return z3.ForAll([v], z3.Implies(z3.And(0 <= v, v < n), body))


def inv(lst, n, pos, last):
    p, q, b = z3.Ints("p q b")
    return {
        "length": lst.n == n,
        "entries_in_range": _forall_range(p, n, z3.And(0 <= lst.at(p), lst.at(p) < n)),
        "inverse_of_entries": _forall_range(b, n, z3.And(0 <= pos[b], pos[b] < n, lst.at(pos[b]) == b)),
        "entries_of_inverse": _forall_range(p, n, pos[lst.at(p)] == p),
        "sorted_by_last_access": z3.ForAll([p, q], z3.Implies(z3.And(0 <= p, p < q, q < n), last[lst.at(p)] < last[lst.at(q)])),
    }


def _native(method, n, order, last, i=None, now=None):
    """the same contract evaluated on the real class -> names of failed clauses ("*": the real method raised)"""
    try:
        return _native_inner(method, n, order, last, i, now)
    except _HarnessError:
        raise
    except Exception as e:
        return ["*", "raises %s" % type(e).__name__]


class _HarnessError(Exception):
    pass


def _bounded_search(method):
    """adjudication of goals the solver leaves open: every well-formed state with n <= 4 (all orders, all accessed blocks)
    on the real class -> (evaluations, first failing input or None).  Bounded, never counted as proved."""
    import itertools
    ev = 0
    for nn in (1, 2, 3, 4):
        if method == "__init__":
            ev += 1
            f = _native(method, nn, list(range(nn)), [0] * nn)
            if f:
                return ev, {"n": nn, "lru": list(range(nn)), "last": [0] * nn, "failed": f}
            continue
        for order in itertools.permutations(range(nn)):
            lastv = [0] * nn
            for t, b in enumerate(order):
                lastv[b] = t
            for i in (range(nn) if method == "access" else [None]):
                ev += 1
                kw = {"i": i, "now": nn + 5} if method == "access" else {}
                f = _native(method, nn, list(order), lastv, **kw)
                if f:
                    return ev, {"n": nn, "lru": list(order), "last": lastv, **kw, "failed": f}
    return ev, None


def _native_inner(method, n, order, last, i=None, now=None):
    mod = importlib.import_module(MOD)
    failed = []
    if method == "__init__":
        s = mod.LRU(n)
        if list(s.lru) != list(range(n)) or s.associativity != n:
            failed += ["inv", "associativity"]
        if n and s.get_next_to_replace() != 0:
            failed.append("first_victim_is_block_0")
        return failed
    s = mod.LRU(n)
    s.lru = list(order)
    if method == "access":
        try:
            s.access(i)
        except Exception:
            return ["noexc"]
        l2 = dict(enumerate(last))
        l2[i] = now
        if len(s.lru) != n or sorted(s.lru) != list(range(n)):
            failed.append("inv")
        elif any(l2[s.lru[p]] >= l2[s.lru[p + 1]] for p in range(n - 1)):
            failed.append("inv")
        if not s.lru or s.lru[-1] != i:
            failed.append("accessed_is_most_recent")
        if [b for b in order if b != i] != [b for b in s.lru if b != i]:
            failed.append("others_keep_their_relative_order")
        mid = list(s.lru)
        try:
            s.access(i)
        except Exception:
            failed.append("second_access_is_noop")
        if list(s.lru) != mid:
            failed.append("second_access_is_noop")
    elif method == "get_next_to_replace":
        v = s.get_next_to_replace()
        if not (0 <= v < n) or any(last[v] > last[b] for b in range(n)):
            failed.append("victim_has_oldest_last_access")
        if list(s.lru) != list(order):
            failed.append("pure")
    elif method == "get_repr":
        r = s.get_repr()
        if len(r) != n:
            failed.append("one_age_per_block")
        elif any((r[a] < r[b]) != (last[a] < last[b]) for a in range(n) for b in range(n) if a != b):
            failed.append("ages_ordered_like_last_access")
        if len(r) == n and r[s.get_next_to_replace()] != 0:
            failed.append("victim_has_age_0")
        if list(s.lru) != list(order):
            failed.append("pure")
    return failed


def run(tier, seed, timeout_ms):
    obs = []
    mod = importlib.import_module(MOD)
    tree = ast.parse(inspect.getsource(mod))
    functions = set()
    searched = set()

    def ob(name, status, seconds=0.0, reason="", replay=None, canary=False, model=None):
        obs.append({"name": "C10/LRU-every-associativity/" + name, "status": status, "backend": "z3-quantified", "seconds": seconds, "reason": reason,
                    "witness": model, "replay": replay, "canary": canary, "bounded": False})

    n = z3.Int("n")
    lru0 = SL.SymList(z3.Array("lru", I, I), n)
    pos = z3.Array("pos", I, I)
    last = z3.Array("last", I, I)
    witness = lambda lst, x: pos[x]          # before any update the ghost inverse says where x is
    base = [n >= 1] + list(inv(lru0, n, pos, last).values())

    def model_state(m):
        nn = m.eval(n, model_completion=True).as_long()
        if nn > 40:
            return None
        order = [m.eval(lru0.at(z3.IntVal(p)), model_completion=True).as_long() for p in range(nn)]
        lastv = [m.eval(last[z3.IntVal(b)], model_completion=True).as_long() for b in range(nn)]
        return nn, order, lastv

    def discharge(unit, hyps, goals, method, extra=None, native_args=None):
        for gname, g in goals:
            st, m, dt = SL.prove(hyps, g, timeout_ms)
            rep = None
            reason = ""
            mj = None
            if st == "refuted":
                ms = model_state(m)
                conf = False
                if ms is not None:
                    nn, order, lastv = ms
                    kw = {}
                    if native_args:
                        kw = {k: m.eval(v, model_completion=True).as_long() for k, v in native_args.items()}
                    mj = {"n": nn, "lru": order, "last": lastv, **kw}
                    try:
                        failed = _native(method, nn, order, lastv, **kw)
                        key = gname.split(":")[0]
                        conf = any(f == "*" or f == key or (key.startswith("inv") and f == "inv") or (key.startswith("noexc") and f == "noexc") for f in failed)
                        reason = "native run on the real class fails %s" % failed if failed else "native run satisfies the contract"
                    except Exception as e:
                        reason = "native replay raised %r" % (e,)
                rep = {"confirmed": conf, "method": method, "model": mj}
            ob("%s/%s" % (unit, gname), st, dt, reason, rep, model=mj)
            if st == "unknown" and method not in searched:
                # the solver left it open (typically: a false goal whose counter-model needs a model of the quantified
                # hypotheses): small-scope search on the real class
                searched.add(method)
                ev, hit = _bounded_search(method)
                if hit is not None:
                    failed = hit.pop("failed")
                    obs.append({"name": "C10/LRU-every-associativity/%s/%s" % (unit, gname), "status": "refuted", "backend": "bounded-native-search", "seconds": 0.0,
                                "reason": "found by the small-scope search (n <= 4) that adjudicates undecided goals: fails %s" % failed, "witness": hit,
                                "replay": {"confirmed": True, "method": method, "model": hit}, "canary": False, "bounded": False})
                else:
                    obs.append({"name": "C10/LRU-every-associativity/%s/small-scope-search(n<=4,%d states)" % (unit, ev), "status": "proved", "backend": "bounded-native-search",
                                "seconds": 0.0, "reason": "", "witness": None, "replay": None, "canary": False, "bounded": True})

    try:
        # ---------------------------------------------------------------- __init__
        ex = SL.Exec(tree, "LRU", witness=None)
        s = SL.Obj()
        ex.call(s, "__init__", [n])
        lst = s.fields.get("lru")
        if not isinstance(lst, SL.SymList):
            raise SL.Unsupported("__init__ does not leave a list in self.lru")
        ident = z3.Lambda([z3.Int("b")], z3.Int("b"))
        never = z3.Lambda([z3.Int("b")], z3.Int("b") - n)          # never accessed: oldest, in index order
        goals = [("inv:" + k, v) for k, v in inv(lst, n, ident, never).items()]
        goals.append(("associativity", s.fields.get("associativity") == n))
        goals += [("noexc:" + k, v) for k, v in ex.obligations]
        discharge("__init__", [n >= 1] + ex.assumptions, goals, "__init__")
        ex2 = SL.Exec(tree, "LRU", witness=lambda l, x: x)
        v0 = ex2.call(s, "get_next_to_replace", [])
        discharge("__init__", [n >= 1] + ex2.assumptions, [("first_victim_is_block_0", v0 == 0)] + [("noexc:" + k, v) for k, v in ex2.obligations], "__init__")
        functions |= ex.functions | ex2.functions

        # ---------------------------------------------------------------- access
        i, now = z3.Ints("i now")
        b_, c_, p_ = z3.Ints("b c p")
        pre = base + [0 <= i, i < n, _forall_range(b_, n, last[b_] < now)]
        ex = SL.Exec(tree, "LRU", witness=witness)
        s = SL.Obj()
        s.fields = {"lru": lru0, "associativity": n}
        ex.call(s, "access", [i])
        l1 = s.fields["lru"]
        k = pos[i]
        pos1 = z3.Lambda([b_], z3.If(b_ == i, n - 1, z3.If(pos[b_] > k, pos[b_] - 1, pos[b_])))
        last1 = z3.Store(last, i, now)
        goals = [("inv:" + kk, v) for kk, v in inv(l1, n, pos1, last1).items()]
        goals.append(("accessed_is_most_recent", l1.at(n - 1) == i))
        goals.append(("others_keep_their_relative_order", z3.ForAll([b_, c_], z3.Implies(z3.And(0 <= b_, b_ < n, 0 <= c_, c_ < n, b_ != i, c_ != i),
                                                                                           (pos[b_] < pos[c_]) == (pos1[b_] < pos1[c_])))))
        goals.append(("associativity_unchanged", s.fields["associativity"] == n))
        goals += [("noexc:" + kk, v) for kk, v in ex.obligations]
        hyps1 = pre + ex.assumptions
        discharge("access", hyps1, goals, "access", native_args={"i": i, "now": now})
        # second access of the same block: executed on the state the first one left (its invariant is proved above)
        ex_b = SL.Exec(tree, "LRU", witness=lambda l, x: pos1[x])
        ex_b.fresh = 100
        ex_b.call(s, "access", [i])
        l2 = s.fields["lru"]
        post1 = list(inv(l1, n, pos1, last1).values())
        goals = [("second_access_is_noop", z3.And(l2.n == l1.n, _forall_range(p_, n, l2.at(p_) == l1.at(p_))))]
        goals += [("noexc:second:" + kk, v) for kk, v in ex_b.obligations]
        discharge("access", hyps1 + post1 + ex_b.assumptions, goals, "access", native_args={"i": i, "now": now})
        functions |= ex.functions

        # ---------------------------------------------------------------- get_next_to_replace
        ex = SL.Exec(tree, "LRU", witness=witness)
        s = SL.Obj()
        s.fields = {"lru": lru0, "associativity": n}
        v = ex.call(s, "get_next_to_replace", [])
        # (lemma by position first -- sortedness instantiates directly --, then by block through the ghost inverse;
        #  a proved lemma joins the hypotheses of the goals behind it)
        lemma = _forall_range(p_, n, last[v] <= last[lru0.at(p_)])
        st_l, _, dt_l = SL.prove(base + ex.assumptions, lemma, timeout_ms)
        ob("get_next_to_replace/lemma:victim_is_oldest_by_position", st_l, dt_l)
        ex.assumptions = ex.assumptions + ([lemma] if st_l == "proved" else [])
        # the block-indexed statement for an arbitrary block b0 (a fresh constant: proving it for b0 proves it for all),
        # with the two instances the solver does not find by itself: the ghost inverse at b0 and the lemma at pos[b0]
        b0 = z3.Int("b0")
        inst = [z3.Implies(z3.And(0 <= b0, b0 < n), z3.And(0 <= pos[b0], pos[b0] < n, lru0.at(pos[b0]) == b0)),
                z3.Implies(z3.And(0 <= pos[b0], pos[b0] < n), last[v] <= last[lru0.at(pos[b0])])] if st_l == "proved" else []
        ex.assumptions = ex.assumptions + inst
        goals = [("victim_in_range", z3.And(0 <= v, v < n)),
                 ("victim_has_oldest_last_access", z3.Implies(z3.And(0 <= b0, b0 < n), last[v] <= last[b0])),
                 ("pure", z3.BoolVal(s.fields["lru"] is lru0 and s.fields["associativity"] is n))]
        goals += [("noexc:" + kk, vv) for kk, vv in ex.obligations]
        discharge("get_next_to_replace", base + ex.assumptions, goals, "get_next_to_replace")
        functions |= ex.functions

        # ---------------------------------------------------------------- get_repr
        ex = SL.Exec(tree, "LRU", witness=witness)
        s = SL.Obj()
        s.fields = {"lru": lru0, "associativity": n}
        r = ex.call(s, "get_repr", [])
        if not isinstance(r, SL.SymList):
            raise SL.Unsupported("get_repr does not return a list")
        exv = SL.Exec(tree, "LRU", witness=witness)
        vic = exv.call(s, "get_next_to_replace", [])
        goals = [("one_age_per_block", r.n == n),
                 ("ages_ordered_like_last_access", z3.ForAll([b_, c_], z3.Implies(z3.And(0 <= b_, b_ < n, 0 <= c_, c_ < n, b_ != c_),
                                                                                   (r.at(b_) < r.at(c_)) == (last[b_] < last[c_])))),
                 ("victim_has_age_0", r.at(vic) == 0),
                 ("pure", z3.BoolVal(s.fields["lru"] is lru0 and s.fields["associativity"] is n))]
        goals += [("noexc:" + kk, vv) for kk, vv in ex.obligations]
        discharge("get_repr", base + ex.assumptions + exv.assumptions, goals, "get_repr")
        functions |= ex.functions

        # ---------------------------------------------------------------- vacuity: the pre-state exists; canary
        so = z3.Solver()
        so.set("timeout", int(timeout_ms))
        so.add(n == 3, *base)
        ob("cover/well_formed_state_exists(n=3)", "proved" if so.check() == z3.sat else "unknown")
        # canary: "the victim is the most recently used block" must be refuted and replay
        ex = SL.Exec(tree, "LRU", witness=witness)
        s = SL.Obj()
        s.fields = {"lru": lru0, "associativity": n}
        v = ex.call(s, "get_next_to_replace", [])
        # (hypotheses expanded for n = 3: a ground query, so that the refutation does not depend on the solver building a
        #  model of quantified formulas)
        g = [n == 3]
        for a in range(3):
            g += [0 <= lru0.at(a), lru0.at(a) < 3, 0 <= pos[a], pos[a] < 3, lru0.at(pos[a]) == a, pos[lru0.at(a)] == a]
            for c in range(a + 1, 3):
                g.append(last[lru0.at(a)] < last[lru0.at(c)])
        st, m, dt = SL.prove(g + ex.assumptions, z3.And(*[last[v] >= last[z3.IntVal(c)] for c in range(3)]), timeout_ms)
        conf = False
        if st == "refuted":
            ms = model_state(m)
            if ms is not None:
                nn, order, lastv = ms
                vv = mod.LRU(nn)
                vv.lru = list(order)
                conf = any(lastv[vv.get_next_to_replace()] < lastv[b] for b in range(nn))
        ob("canary/victim-is-newest", st, dt, canary=True, replay={"confirmed": conf})
    except SL.Unsupported as e:
        ob("unsupported", "unknown", reason="outside the list subset: %s" % e)
    return {"obligations": obs, "functions": sorted("%s:%s" % (MOD, f) for f in functions), "units": 4, "notes": ["list semantics assumed: %s" % "; ".join("%s = %s" % kv for kv in SL.SEMANTICS.items())]}


def replay(j):
    rp = j.get("native_replay") or {}
    m = rp.get("model")
    if not m:
        print("no replayable model recorded")
        return True
    failed = _native(rp["method"], m["n"], m["lru"], m["last"], **{k: m[k] for k in ("i", "now") if k in m})
    print("LRU(n=%d) with order %s, last accesses %s, %s -> failed clauses: %s" % (m["n"], m["lru"], m["last"], {k: m[k] for k in ("i", "now") if k in m}, failed or "none"))
    return not failed
