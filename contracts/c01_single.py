"""C01 -- single-cycle RV32IM execution matches the ISA reference (spec/rv32im.py).

One unit per in-scope mnemonic: the real RiscvSimulation.step() in single-stage configuration on a
state with arbitrary registers, data memory (S-MEM), counters and program counter, the instruction
built by its real constructor from arbitrary register numbers and an arbitrary integer immediate.
Every component the property lists is compared with the reference.
"""
from pyvc.api import *
from fixedint import UInt32
from architecture_simulator.simulation.riscv_simulation import RiscvSimulation
from architecture_simulator.simulation.runtime_errors import InstructionExecutionException
from architecture_simulator.uarch.riscv.pipeline import Pipeline
from contracts.rvcommon import *
from spec import rv32im as S


def check_effect(st, regs0, mem0_k, k, e, pc, counters0, r):
    """post-state of a non-faulting step == reference effect"""
    regs = st.register_file.registers
    check("x0_stays_zero", int(regs[0]) == 0)
    ok = True
    for j in range(1, 32):
        want = int(regs0[j]) if e.rd is None else ite(e.rd == j, e.value, int(regs0[j]))
        ok = ok & (int(regs[j]) == want)
    check("registers", ok)
    check("register_types", all_of([type(v) is UInt32 for v in regs]))
    want_k = mem0_k
    for (a, b) in e.stores:
        want_k = ite(k == a, b, want_k)
    check("data_memory", byte_at(st.memory, k) == want_k)
    check("pc", st.program_counter == e.next_pc)
    check("output", st.output == OUT0 + e.output)
    check("exit_code", (st.exit_code is None) if e.exit_code is None else (st.exit_code is not None and st.exit_code == e.exit_code))
    pm = st.performance_metrics
    check("retired_count", pm.instruction_count == counters0[0] + 1)
    check("branch_count", pm.branch_count == counters0[1] + ite(e.taken_branch, 1, 0))
    check("call_count", pm.procedure_count == counters0[2] + (1 if e.call else 0))
    check("cycles", pm.cycles == counters0[3] + 1)
    done = (st.exit_code is not None) or not st.instruction_at_pc()
    check("step_returns_not_done", r == (not done))


def run_and_compare(st, regs0, ins, pc, e):
    sim = RiscvSimulation(state=st)
    k = sym_int("k", 0, TOP - 1)
    mem0_k = byte_at(st.memory, k)
    pm = st.performance_metrics
    counters0 = (pm.instruction_count, pm.branch_count, pm.procedure_count, pm.cycles)
    try:
        r = sim.step()
    except InstructionExecutionException as ex:
        reach("fault")
        check("faults_only_if_reference_faults", e.fault)
        check("fault_reports_address", ex.address == pc)
        check("fault_reports_printed_form", ex.instruction_repr == repr(ins))
        check("fault_registers_unchanged", all_of([int(st.register_file.registers[j]) == int(regs0[j]) for j in range(32)]))
        check("fault_output_unchanged", st.output == OUT0)
        check("fault_no_exit_code", st.exit_code is None)
        return
    reach("normal")
    check("completes_only_if_reference_does", not e.fault)
    check_effect(st, regs0, mem0_k, k, e, pc, counters0, r)


def instr_unit(mn):
    @unit("C01/step/" + mn, expect_reach=("normal",))
    def u():
        st, regs0 = havoc_state()
        ins, rd, rs1, rs2, imm = build(mn)
        pc = sym_int("pc", 0, IMEM_TOP - 4)
        place(st, ins, pc)
        e = S.step(mn, rd, rs1, rs2, imm, lambda i: int(regs0[i]), lambda a: byte_at(st.memory, a), pc, LO)
        run_and_compare(st, regs0, ins, pc, e)
    return u


for _mn in MNEMONICS:
    if _mn != "ecall":
        instr_unit(_mn)


@unit("C01/constructors/immediates")
def constructor_immediates():
    """U1.1: for EVERY integer argument the format constructors store the sign-extended low bits
    (12 for I/S, 13 for B, 20 for U, 21 for J) resp. the low 5 bits (shift amount)."""
    from architecture_simulator.isa.riscv.rv32i_instructions import ADDI, LW, JALR, SLLI, SRAI, SW, BEQ, LUI, AUIPC, JAL
    imm = sym_int("imm")
    check("I", ADDI(1, 2, imm).imm == S.sext(imm, 12) and LW(1, 2, imm).imm == S.sext(imm, 12) and JALR(1, 2, imm).imm == S.sext(imm, 12))
    check("shamt", SLLI(1, 2, imm).imm == imm % 32 and SRAI(1, 2, imm).imm == imm % 32)
    check("S", SW(1, 2, imm).imm == S.sext(imm, 12))
    check("B", BEQ(1, 2, imm).imm == S.sext(imm, 13))
    check("U", LUI(1, imm).imm == S.sext(imm, 20) and AUIPC(1, imm).imm == S.sext(imm, 20))
    check("J", JAL(1, imm, 0).imm == S.sext(imm, 21))


# ------------------------------------------------------------------------------------ ecall
def ecall_setup(code):
    st, regs0 = havoc_state()
    st.register_file.registers[17] = UInt32(code)
    regs0[17] = UInt32(code)
    ins, _, _, _, _ = build("ecall")
    pc = sym_int("pc", 0, IMEM_TOP - 4)
    place(st, ins, pc)
    e = S.Effect()
    e.next_pc = pc + 4
    return st, regs0, ins, pc, e, int(regs0[10])


def ecall_unit(code):
    @unit("C01/step/ecall/a7=%d" % code, expect_reach=("normal",))
    def u():
        st, regs0, ins, pc, e, a0 = ecall_setup(code)
        if code == 1:
            e.output = str(S.s32(a0))
        elif code == 36:
            e.output = str(a0)
        elif code == 11:
            e.output = chr(a0 % 128)
        elif code == 34:
            e.output = "0x" + format(a0, "X")
        elif code == 35:
            e.output = bin(a0)
        elif code == 2:
            from struct import unpack
            e.output = str(unpack(">f", a0.to_bytes(4, "big"))[0])
        elif code == 10:
            e.exit_code = 0
        elif code == 93:
            e.exit_code = a0
        run_and_compare(st, regs0, ins, pc, e)
    return u


for _c in (1, 2, 10, 11, 34, 35, 36, 93):
    ecall_unit(_c)


@unit("C01/step/ecall/invalid-code", expect_reach=("fault",))
def ecall_invalid():
    st, regs0 = havoc_state()
    ins, _, _, _, _ = build("ecall")
    pc = sym_int("pc", 0, IMEM_TOP - 4)
    place(st, ins, pc)
    assume(not S.ecall_is_valid(int(regs0[17])))
    e = S.Effect()
    e.fault = True
    run_and_compare(st, regs0, ins, pc, e)


STRLEN = 6


@unit("C01/step/ecall/a7=4-string", expect_reach=("normal", "fault"), bounded="strings of at most %d bytes" % STRLEN)
def ecall_string():
    """BOUNDED: the print-string loop is unrolled for strings of at most STRLEN bytes (symbolic contents and address)."""
    st, regs0, ins, pc, e, a0 = ecall_setup(4)
    n = sym_int("n", 0, STRLEN)
    s = ""
    bad = False
    for i in range(STRLEN + 1):
        a = a0 + i
        if i <= n:
            bad = bad | (a % TOP < LO)
        if i < n:
            b = byte_at(st.memory, a % TOP)
            assume((0 < b) & (b < 128))
            s = s + chr(b)
        if i == n:
            assume(implies(not bad, byte_at(st.memory, a % TOP) == 0))
    e.output = s
    e.fault = bad
    run_and_compare(st, regs0, ins, pc, e)


@unit("C01/ECALL.process_ecall/print-string/loop-in-lock-step-with-the-reference", expect_reach=("init", "more", "done", "fault"))
def ecall_string_loop():
    """UNBOUNDED: the loop of `case 4` (mechanically cut into the assignments before it, its test + body, and the return
    behind it -- pyvc/slices.loop_parts, nothing dropped) against the reference loop of spec/rv32im.py.
    (1) the assignments before the loop establish the reference's initial state; (2) from ANY loop state (a0, number of
    iterations so far, text so far -- an opaque string of unknown length) one iteration of the real loop and one of the
    reference agree on continue / stop / fault, on the next address modulo 2**32 and on the text so far, and read
    memory only; (3) on stop the value returned is the text so far.  By induction on the iteration count the real loop
    returns the reference string (or faults where the reference faults) for strings of every length; that it
    terminates is not proved."""
    from architecture_simulator.uarch.memory.memory import MemoryAddressError
    M, F = "architecture_simulator.isa.riscv.rv32i_instructions", "ECALL.process_ecall"
    st, regs0 = havoc_state()
    a0 = sym_int("a0", 0, TOP - 1)
    # the loop's variables and inputs are addressed by role, not by spelling (a renamed local must not matter)
    info = run_loop_part(M, F, 4, "names", {})
    require("one input is read before the loop (a0)", len(info["__free_pre__"]) == 1)
    require("the loop has two variables", len(info["__state__"]) == 2)
    require("beside its variables the loop reads one object (the state)", len(info["__free_loop__"]) == 1)
    arg_n, st_n = info["__free_pre__"][0], info["__free_loop__"][0]
    env = run_loop_part(M, F, 4, "init", {arg_n: a0, st_n: st})
    v0, v1 = info["__state__"][0], info["__state__"][1]
    text_n, addr_n = (v0, v1) if isinstance(env[v0], str) else (v1, v0)
    require("one variable starts as text, the other as a number", isinstance(env[text_n], str) and not isinstance(env[addr_n], str))
    ra, rp = S.print_string_init(a0)
    reach("init")
    check("loop_starts_at_a0", env[addr_n] % TOP == ra % TOP)
    check("loop_starts_with_nothing_printed", env[text_n] == rp)

    k = sym_int("iterations_so_far", 0)
    printed = sym_str("printed_so_far")
    address = a0 + k
    before = snapshot(st)
    kind, addr2, printed2 = S.print_string_step(address, printed, lambda a: byte_at(st.memory, a), LO)
    # (which character a byte >= 128 prints as is not documented; that it is PART of the string -- only a zero byte ends
    #  it -- is: the decision and the next address are compared for every byte, the text only for ASCII bytes)
    ascii_byte = byte_at(st.memory, address % TOP) < 128
    faulted = False
    try:
        env = run_loop_part(M, F, 4, "step", {addr_n: address, text_n: printed, st_n: st})
    except MemoryAddressError:
        faulted = True
    check_same("an_iteration_only_reads", before, snapshot(st))
    if faulted:
        reach("fault")
        check("faults_only_where_the_reference_faults", kind == "fault")
        return
    check("reference_fault_is_a_fault", kind != "fault")
    if env["__continue__"]:
        reach("more")
        check("continues_only_if_the_reference_continues", kind == "more")
        check("next_address", env[addr_n] % TOP == addr2 % TOP)
        check("text_so_far", implies(ascii_byte, env[text_n] == printed2))
    else:
        reach("done")
        check("stops_only_if_the_reference_stops", kind == "done")
        check("text_unchanged_on_stop", env[text_n] == printed2)
        out = run_loop_part(M, F, 4, "exit", {addr_n: env[addr_n], text_n: env[text_n], st_n: st})
        check("returns_the_text_so_far", out["__return__"] == printed2)


# ------------------------------------------------------------------------------------ termination condition
@unit("C01/Pipeline.is_done/single-stage")
def is_done_contract():
    st, regs0 = havoc_state()
    ins, _, _, _, _ = build("addi")
    a = sym_int("a", 0, IMEM_TOP - 4)
    pc = sym_int("pc")
    st.instruction_memory.instructions = {a: ins}
    st.program_counter = pc
    st.exit_code = ite(sym_bool("exited"), sym_int("code"), None)
    before = snapshot(st)
    d = st.pipeline.is_done()
    check("done_iff_exit_or_no_instruction_at_pc", d == ((st.exit_code is not None) or (pc != a)))
    check_same("pure", before, snapshot(st))
    sim = RiscvSimulation(state=st)
    if d:
        r = sim.step()
        check("step_when_done_returns_false", r is False)
        check_same("step_when_done_changes_nothing", before, snapshot(st))


@unit("C01/run/loop-invariant")
def run_loop():
    """run() = resume_timer; while not is_done(): step(); stop_timer.  One iteration is one reference step (units above);
    the loop exits exactly when is_done() (checked here on the real body via a one-instruction program)."""
    st, regs0 = havoc_state()
    ins, rd, rs1, rs2, imm = build("addi")
    pc = sym_int("pc", 0, IMEM_TOP - 4)
    place(st, ins, pc)
    sim = RiscvSimulation(state=st)
    sim.run()
    check("after_run_is_done", sim.is_done() is True)
    check("exactly_one_step", st.performance_metrics.instruction_count == sym_int("icount", 0) + 1)
    check("pc_after", st.program_counter == pc + 4)


@unit("C01/canary/sra-is-logical", canary=True)
def canary_sra():
    st, regs0 = havoc_state()
    ins, rd, rs1, rs2, imm = build("sra")
    pc = sym_int("pc", 0, IMEM_TOP - 4)
    place(st, ins, pc)
    e = S.step("srl", rd, rs1, rs2, imm, lambda i: int(regs0[i]), lambda a: byte_at(st.memory, a), pc, LO)
    run_and_compare(st, regs0, ins, pc, e)


@unit("C01/canary/load-never-faults", canary=True)
def canary_load():
    st, regs0 = havoc_state()
    ins, rd, rs1, rs2, imm = build("lw")
    pc = sym_int("pc", 0, IMEM_TOP - 4)
    place(st, ins, pc)
    RiscvSimulation(state=st).step()
