"""C19b -- the TOY assembler behind its tokenizer.

ToyParser.parse = _sanitize; _tokenize; _segment (pyparsing: out of deductive reach, covered by the bounded run-time
contract of bounded/c19.py) followed by _process_labels; _write_data; _load_instructions, which place code, data and
names.  These units run the REAL parse() with the three front-end methods replaced by harness functions that install a
token list of a given *shape* (which lines are label declarations, address instructions with a numeric or a name
operand, address-less instructions; how many values each variable has) with symbolic content: every numeric operand and
data value is ANY non-negative integer, every in-line label is present or absent, every name (label, variable, operand)
is chosen among a small set so that duplicates, forward/backward references, variable/label clashes and undefined names
all occur, data before or after text.  The memory the program is loaded into is arbitrary (frame condition per cell).

Post-condition (taken from C19): instruction i at address i as opcode * 4096 + resolved address mod 4096; variables
downward from 4095 in declaration order, elements ascending, values mod 2**16; every name resolves to that address;
max_pc; nothing else written; duplicate names and undefined names are rejected with the documented exception.

Shapes are enumerated (text <= 2 lines quick, <= 3 thorough; 0-2 variables of 1-3 values): proved per shape, for all
contents.  Trusted: the token objects below answer get_name()/attribute/[0].get() the way pyparsing's ParseResults do
for the grammar of ToyParser (checked against the real tokenizer by the unit .../token-protocol, natively), and
_value_to_int is replaced by a table lookup (its own unit checks it on literals)."""
from pyvc.api import *
from fixedint import UInt16
from architecture_simulator.isa.toy.toy_parser import ToyParser
from architecture_simulator.isa.toy.toy_instructions import ToyInstruction, AddressTypeInstruction
from architecture_simulator.uarch.toy.toy_architectural_state import ToyArchitecturalState
from architecture_simulator.isa.parser_exceptions import ParserLabelException, DuplicateLabelException

ADDR = ["STO", "LDA", "BRZ", "ADD", "SUB", "OR", "AND", "XOR"]
NOADDR = ["NOT", "INC", "DEC", "ZRO", "NOP"]
OPC = {"STO": 0, "LDA": 1, "BRZ": 2, "ADD": 3, "SUB": 4, "OR": 5, "AND": 6, "XOR": 7, "NOT": 8, "INC": 9, "DEC": 10, "ZRO": 11, "NOP": 12}


class Tok:
    """one text line as the tokenizer delivers it (missing results names read as '')"""

    def __init__(self, name, mnemonic="", address="", label="", in_line_label=None):
        self._name = name
        self.mnemonic = mnemonic
        self.address = address
        self.label = label
        self.in_line_label = in_line_label if in_line_label is not None else []
        self.variable_declaration = ""

    def get_name(self):
        return self._name

    def __getitem__(self, i):
        return "token"


class VarTok:
    """one variable declaration (a Group: the fields live in element 0)"""

    def __init__(self, name, values):
        self._d = {"name": name, "values": values}
        self.mnemonic = ""
        self.address = ""
        self.label = ""
        self.in_line_label = []
        self.variable_declaration = self

    def get_name(self):
        return "variable_declaration"

    def __getitem__(self, i):
        return self

    def get(self, k):
        return self._d.get(k)


def pick(name, options):
    """one of the options, decided by case split"""
    k = split(sym_int(name, 0, len(options) - 1))
    return options[k]


def build(shape, nvals, mn_seed):
    """-> (text lines, data lines, table of numeric tokens, description for the reference)"""
    table = {}
    items = []      # reference view: ("label", name) | ("instr", mnemonic, inline or None, ("num", sym) | ("name", n) | None)
    text = []
    var_names = ["v%d" % i for i in range(len(nvals))]
    if len(nvals) >= 1 and sym_bool("first_variable_is_called_like_a_label"):
        var_names[0] = "a"
    names = ["a", "b", "zz"] + ["v%d" % i for i in range(len(nvals))]
    for i, kind in enumerate(shape):
        line_no = 10 + i
        if kind == "L":
            nm = pick("label_%d" % i, ["a", "b"])
            text.append((line_no, "line", Tok("label_declaration", label=nm)))
            items.append(("label", nm))
            continue
        inl = pick("inline_%d" % i, [None, "a", "b"])
        if kind == "Z":
            mn = NOADDR[(mn_seed + i) % len(NOADDR)]
            text.append((line_no, "line", Tok("mnemonic", mnemonic=mn if (mn_seed + i) % 2 else mn.lower(), label=inl or "",
                                              in_line_label=[inl] if inl else [])))
            items.append(("instr", mn, inl, None))
        else:
            mn = ADDR[(mn_seed + i) % len(ADDR)]
            spelled = mn if (mn_seed + i) % 2 else mn.lower()
            if kind == "A":
                key = "#t%d" % i
                table[key] = sym_int("operand_%d" % i, 0)
                # on a line with an in-line label the results name `label` holds the label's name
                text.append((line_no, "line", Tok("mnemonic", mnemonic=spelled, address=key, label=inl or "", in_line_label=[inl] if inl else [])))
                items.append(("instr", mn, inl, ("num", table[key])))
            else:
                nm = pick("operand_name_%d" % i, names)
                # the operand name is the later match: it is what `label` holds
                text.append((line_no, "line", Tok("mnemonic", mnemonic=spelled, label=nm, in_line_label=[inl] if inl else [])))
                items.append(("instr", mn, inl, ("name", nm)))
    data = []
    variables = []
    for j, n in enumerate(nvals):
        keys = []
        vals = []
        for e in range(n):
            key = "#d%d_%d" % (j, e)
            if e >= 1 and sym_bool("value_%d_%d_is_spelled_like_the_first" % (j, e)):
                # the same literal text twice in one declaration (`.word 7, 3, 7`): one token string, hence one value
                key = keys[0]
            else:
                table[key] = sym_int("value_%d_%d" % (j, e), 0)
            keys.append(key)
            vals.append(table[key])
        data.append((50 + j, "line", VarTok(var_names[j], keys)))
        variables.append((var_names[j], vals))
    return text, data, table, items, variables


def reference(items, variables):
    """placement as C19 states it -> ("ok", labels, words, cells) | ("duplicate",) | ("undefined",)"""
    labels = {}
    dup = False
    pc = 0
    for it in items:
        if it[0] == "label":
            dup = dup or it[1] in labels
            labels[it[1]] = pc
        else:
            if it[2] is not None:
                dup = dup or it[2] in labels
                labels[it[2]] = pc
            pc = pc + 1
    top = 4095
    cells = []
    for name, vals in variables:
        top = top - len(vals)
        dup = dup or name in labels
        labels[name] = top + 1
        for e, v in enumerate(vals):
            cells.append((top + 1 + e, v % 65536))
    if dup:
        return ("duplicate",)
    words = []
    for it in items:
        if it[0] != "instr":
            continue
        if it[3] is None:
            words.append(OPC[it[1]] * 4096)
        elif it[3][0] == "num":
            words.append(OPC[it[1]] * 4096 + it[3][1] % 4096)
        else:
            if it[3][1] not in labels:
                return ("undefined",)
            words.append(OPC[it[1]] * 4096 + labels[it[3][1]] % 4096)
    return ("ok", labels, words, cells)


def backend_unit(shape, nvals, mn_seed):
    text, data, table, items, variables = build(shape, nvals, mn_seed)
    data_first = sym_bool("data_segment_first")
    st = ToyArchitecturalState()
    st.memory.memory_file = sym_map("M", UInt16)
    k = sym_int("k", 0, 4095)
    before_k = int(st.memory.memory_file.get(k, UInt16(0)))

    def no_sanitize(self):
        self.sanitized_program = []

    def install_tokens(self):
        self.token_list = (data + text) if data_first else (text + data)

    def install_segments(self):
        self.text = text
        self.data = data

    def lookup(self, tok):
        return table[tok]
    p = ToyParser()
    stub(ToyParser, "_sanitize", no_sanitize)
    stub(ToyParser, "_tokenize", install_tokens)
    stub(ToyParser, "_segment", install_segments)
    stub(ToyParser, "_value_to_int", lookup)
    outcome = "ok"
    try:
        p.parse("(tokens installed by the harness)", st)
    except DuplicateLabelException as e:
        outcome = "duplicate"
    except ParserLabelException as e:
        outcome = "undefined"
    unstub(ToyParser, "_sanitize")
    unstub(ToyParser, "_tokenize")
    unstub(ToyParser, "_segment")
    unstub(ToyParser, "_value_to_int")
    ref = reference(items, variables)
    reach(ref[0])
    check("outcome_as_documented", outcome == ref[0])
    if ref[0] != "ok" or outcome != "ok":
        return
    labels, words, cells = ref[1], ref[2], ref[3]
    check("names_resolve_to_their_addresses", p.labels == labels)
    touched = False
    for i, w in enumerate(words):
        check("instruction_%d_at_address_%d" % (i, i), int(st.memory.memory_file.get(i, UInt16(0))) == w)
        touched = touched | (k == i)
    for a, v in cells:
        check("data_cell_%d" % a, int(st.memory.memory_file.get(a, UInt16(0))) == v)
        touched = touched | (k == a)
    check("nothing_else_written", implies(not touched, int(st.memory.memory_file.get(k, UInt16(0))) == before_k))
    check("max_pc", st.max_pc == len(words) - 1)
    if len(words) >= 1:
        li = st.loaded_instruction
        check("first_instruction_loaded", int(li) == words[0])
        check("initial_visualisation", int(st.visualisation_values.ram_out) == words[0] and int(st.visualisation_values.pc_old) == 0)


def shapes(n):
    out = [()]
    for _ in range(n):
        out = out + [s + (c,) for s in out if len(s) == _ for c in "LANZ"]
    return out


DATA_QUICK = [(), (2,), (1, 3)]
_seed = 0
for _s in shapes(3):
    for _d in DATA_QUICK:
        _seed += 1
        _tier = "quick" if len(_s) <= 2 else "thorough"
        _want = ("ok",)

        # (three label declarations over the two label names are a duplicate on every path: that shape can only reach
        #  the "duplicate" outcome)
        def _mk(s=_s, d=_d, seed=_seed, tier=_tier, want=("ok",) if "".join(_s).count("L") <= 2 else ("duplicate",)):
            @unit("C19/ToyParser.back-end/text=%s/data=%s" % ("".join(s) or "-", ",".join(str(x) for x in d) or "-"), tier=tier, expect_reach=want)
            def u():
                backend_unit(s, d, seed)
        _mk()


@unit("C19/ToyParser._value_to_int/literals")
def value_to_int():
    p = ToyParser()
    check("hex", p._value_to_int("0x10") == 16 and p._value_to_int("0xfff") == 4095 and p._value_to_int("0xFFFF") == 65535 and p._value_to_int("0x0") == 0)
    check("dec", p._value_to_int("10") == 10 and p._value_to_int("4095") == 4095 and p._value_to_int("007") == 7 and p._value_to_int("0") == 0)
    # the conversion itself does not reduce: data words use all 16 bits, reduction is the business of the cell / instruction
    check("wide", p._value_to_int("4096") == 4096 and p._value_to_int("65535") == 65535 and p._value_to_int("70000") == 70000
          and p._value_to_int("0x1000") == 4096 and p._value_to_int("0x1000F") == 65551)


@unit("C19/ToyParser.back-end/token-protocol", bounded=True)
def token_protocol():
    """the harness tokens answer like the real tokenizer's results (native only: runs pyparsing)"""
    if not native():
        check("native_only", True)
        return
    p = ToyParser()
    p.program = ".data\nv0: .word 3, 0x4\n.text\nstart:\na: LDA 0x10\nb: add v0\nINC\nBRZ start\n"
    p._sanitize()
    p._tokenize()
    p._segment()
    tl = p.token_list
    check("segments", len(p.data) == 1 and len(p.text) == 5)
    v = p.data[0][2]
    check("variable", v.get_name() == "variable_declaration" and v[0].get("name") == "v0" and list(v[0].get("values")) == ["3", "0x4"]
          and not v.mnemonic and not v.in_line_label)
    l = p.text[0][2]
    check("label_line", l.get_name() == "label_declaration" and l.label == "start" and not l.mnemonic and not l.in_line_label)
    a = p.text[1][2]
    check("inline_numeric", a.get_name() != "label_declaration" and a.mnemonic == "LDA" and a.address == "0x10" and a.in_line_label[0] == "a" and a.label == "a")
    b = p.text[2][2]
    check("inline_name", b.mnemonic.upper() == "ADD" and not b.address and b.in_line_label[0] == "b" and b.label == "v0")
    z = p.text[3][2]
    check("no_address", z.mnemonic == "INC" and not z.address and not z.label and not z.in_line_label and not z.variable_declaration)
    n = p.text[4][2]
    check("name_operand", n.mnemonic == "BRZ" and n.label == "start" and not n.address and not n.in_line_label)
