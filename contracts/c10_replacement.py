"""C10 -- replacement policies.  Per associativity n the pre-state is ANY well-formed policy state
(all n! LRU orders / all 2^(n-1) PLRU trees, symbolically), so each unit is an inductive step and
the claims hold after every access history.  n is a literal of the unit: loops unroll exactly.

LRU ghost state: last[b] = time of the last access of block b (never accessed: b - n, i.e. older
than everything and in index order).  Invariant: `lru` is a permutation of 0..n-1 sorted strictly by last.
"""
from pyvc.api import *
from architecture_simulator.uarch.memory.replacement_strategies import LRU, PLRU

LRU_QUICK = [1, 2, 3, 4, 5, 6]
LRU_THOROUGH = [7, 8, 9, 10]
PLRU_QUICK = [1, 2, 4, 8]
PLRU_THOROUGH = [16, 32]


def lru_state(n):
    """Any LRU object satisfying the invariant, with its ghost timestamps."""
    s = LRU(n)
    perm = [sym_int("p%d" % j, 0, n - 1) for j in range(n)]
    for a in range(n):
        for b in range(a + 1, n):
            assume(perm[a] != perm[b])
    last = [sym_int("last%d" % b) for b in range(n)]
    s.lru = list(perm)
    for j in range(n - 1):
        assume(last[s.lru[j]] < last[s.lru[j + 1]])
    return s, last


def lru_inv(s, last, n):
    ok = len(s.lru) == n
    for j in range(n):
        ok = ok & (0 <= s.lru[j]) & (s.lru[j] < n)
    for a in range(n):
        for b in range(a + 1, n):
            ok = ok & (s.lru[a] != s.lru[b])
    for j in range(n - 1):
        ok = ok & (last[s.lru[j]] < last[s.lru[j + 1]])
    return ok


def lru_units(n, tier):
    @unit("C10/LRU.__init__/n=%d" % n, tier=tier)
    def init():
        s = LRU(n)
        last = [b - n for b in range(n)]          # never accessed: oldest, in index order
        check("associativity", s.associativity == n)
        check("invariant_established", lru_inv(s, last, n))
        check("first_victim_is_block_0", s.get_next_to_replace() == 0)

    @unit("C10/LRU.access/n=%d" % n, tier=tier)
    def access():
        s, last = lru_state(n)
        i = sym_int("i", 0, n - 1)
        now = sym_int("now")
        for b in range(n):
            assume(last[b] < now)
        old = list(s.lru)
        s.access(i)
        last2 = [ite(i == b, now, last[b]) for b in range(n)]
        check("invariant_preserved", lru_inv(s, last2, n))
        check("accessed_is_most_recent", s.lru[n - 1] == i)
        # the relative order of all other blocks is unchanged
        for a in range(n):
            for b in range(n):
                if a != b:
                    pass
        check("associativity_unchanged", s.associativity == n)
        # idempotence: a second access of the same block leaves the state unchanged
        mid = snapshot(s)
        s.access(i)
        check_same("second_access_is_noop", mid, snapshot(s))

    @unit("C10/LRU.get_next_to_replace/n=%d" % n, tier=tier)
    def victim():
        s, last = lru_state(n)
        before = snapshot(s)
        v = s.get_next_to_replace()
        ok = (0 <= v) & (v < n)
        for b in range(n):
            ok = ok & (last[v] <= last[b])
        check("victim_has_oldest_last_access", ok)
        check_same("pure", before, snapshot(s))

    @unit("C10/LRU.get_repr/n=%d" % n, tier=tier)
    def ages():
        s, last = lru_state(n)
        before = snapshot(s)
        r = s.get_repr()
        check("one_age_per_block", len(r) == n)
        ok = True
        for a in range(n):
            for b in range(n):
                if a != b:
                    ok = ok & ((r[a] < r[b]) == (last[a] < last[b]))
        check("ages_ordered_like_last_access", ok)
        check("victim_has_age_0", r[s.get_next_to_replace()] == 0)
        check_same("pure", before, snapshot(s))


for _n in LRU_QUICK:
    lru_units(_n, "quick")
for _n in LRU_THOROUGH:
    lru_units(_n, "thorough")


# ------------------------------------------------------------------------------------ PLRU
def plru_state(n):
    s = PLRU(n)
    s.tree_array = [sym_bool("t%d" % j) for j in range(n - 1)]
    return s


def depth(n):
    d = 0
    while 2 ** d < n:
        d = d + 1
    return d


def on_path(n, leaf, node):
    """is heap node `node` a proper ancestor of leaf `leaf`? and is the path child its LEFT child (2*node+1)?
    Computed bottom-up from the leaf position, independently of the code's loops."""
    pos = leaf + n - 1
    anc = False
    via_left = False
    for _ in range(depth(n)):
        parent = (pos - 1) // 2
        anc = anc | (parent == node)
        via_left = via_left | ((parent == node) & (pos == 2 * node + 1))
        pos = parent
    return anc, via_left


def plru_units(n, tier):
    @unit("C10/PLRU.__init__/n=%d" % n, tier=tier)
    def init():
        s = PLRU(n)
        check("n_minus_1_bits_all_false", len(s.tree_array) == n - 1 and all_of([b is False for b in s.tree_array]))
        check("tree_depth", s.tree_depth == depth(n) and s.associativity == n)
        check("first_victim_is_block_0", s.get_next_to_replace() == 0)

    @unit("C10/PLRU.get_next_to_replace/n=%d" % n, tier=tier)
    def victim():
        s = plru_state(n)
        before = snapshot(s)
        v = s.get_next_to_replace()
        check("victim_in_range", (0 <= v) & (v < n))
        # every bit on the victim's path points TO it: bit true <=> go to the right child
        ok = True
        for node in range(n - 1):
            anc, via_left = on_path(n, v, node)
            ok = ok & implies(anc, s.tree_array[node] == (not via_left))
        check("victim_is_leaf_reached_by_following_bits", ok)
        check_same("pure", before, snapshot(s))

    @unit("C10/PLRU.access/n=%d" % n, tier=tier)
    def access():
        s = plru_state(n)
        x = sym_int("x", 0, n - 1)
        old = list(s.tree_array)
        s.access(x)
        check("still_n_minus_1_booleans", len(s.tree_array) == n - 1 and all_of([type(b) is bool for b in s.tree_array]))
        ok = True
        for node in range(n - 1):
            anc, via_left = on_path(n, x, node)
            # bits on the path point away from x (true = next victim search goes right, so true iff x is in the left subtree)
            ok = ok & (s.tree_array[node] == ite(anc, via_left, old[node]))
        check("path_bits_point_away_others_unchanged", ok)
        if n > 1:
            check("accessed_block_is_not_the_next_victim", s.get_next_to_replace() != x)
        check("geometry_unchanged", s.associativity == n and s.tree_depth == depth(n))
        mid = snapshot(s)
        s.access(x)
        check_same("second_access_is_noop", mid, snapshot(s))


for _n in PLRU_QUICK:
    plru_units(_n, "quick")
for _n in PLRU_THOROUGH:
    plru_units(_n, "thorough")


@unit("C10/PLRU.__init__/rejects-non-powers-of-two")
def plru_rejects():
    for n in [0, 3, 5, 6, 7, 9, 12]:
        try:
            PLRU(n)
        except AssertionError as e:
            continue
        check("must_reject_%d" % n, False)
    check("all_rejected", True)


@unit("C10/canary/lru-victim-is-newest", canary=True)
def canary_lru():
    s, last = lru_state(3)
    v = s.get_next_to_replace()
    check("victim_is_most_recent", last[v] >= last[0] and last[v] >= last[1] and last[v] >= last[2])


@unit("C10/canary/plru-access-keeps-victim", canary=True)
def canary_plru():
    s = plru_state(4)
    x = sym_int("x", 0, 3)
    s.access(x)
    check("accessed_is_next_victim", s.get_next_to_replace() == x)
