"""Lemma used by the cache proofs: SpecWordMemory (one 32-bit value per aligned word) is a data refinement of S-MEM
(SpecMemory, one value per byte) -- every access has the same outcome (value or MemoryAddressError) on related stores
and leaves them related.  Relation: for every aligned w, W[w] = sum(L[w+k] * 256**k).  It is assumed at the (at most
two) words the access touches and at one arbitrary other word x (skolem), and checked at x afterwards; an access reads
and writes nothing else, so the relation is preserved everywhere.  Both classes are plain Python: the unit also runs
natively (replay)."""
from pyvc.api import *
from fixedint import UInt8, UInt16, UInt32
from architecture_simulator.uarch.memory.memory import MemoryAddressError
from spec.smem import SpecMemory, SpecWordMemory, TOP

LO = 2 ** 14
WIDTH = {"byte": 1, "halfword": 2, "word": 4}
FT = {"byte": UInt8, "halfword": UInt16, "word": UInt32}


def related(sw, sb, w):
    return sw.word(w) == sb.byte(w) + 256 * sb.byte(w + 1) + 65536 * sb.byte(w + 2) + 16777216 * sb.byte(w + 3)


def setup(n):
    sb = SpecMemory(sym_map("L", UInt8), LO)
    sw = SpecWordMemory(sym_map("W", UInt32), LO)
    a = sym_int("a", -2 ** 33, 2 ** 33)
    lane = split((a % TOP) % 4)
    x = 4 * sym_int("xw", 0, 2 ** 30 - 1)
    first = a % TOP - lane
    last = (a + n - 1) % TOP
    last = last - last % 4
    assume(related(sw, sb, first))
    assume(related(sw, sb, last))
    assume(related(sw, sb, x))
    return sb, sw, a, x


def outcome(f):
    try:
        return ("value", int(f()))
    except MemoryAddressError as e:
        return ("address-error", e.address)


def register(width):
    n = WIDTH[width]

    @unit("C03/lemma/word-memory-refines-S-MEM/read_" + width, expect_reach=("value", "address-error"))
    def r():
        sb, sw, a, x = setup(n)
        ob = outcome(lambda: getattr(sb, "read_" + width)(a))
        ow = outcome(lambda: getattr(sw, "read_" + width)(a))
        reach(ob[0])
        check("same_outcome", ob[0] == ow[0])
        check("same_value_or_reported_address", ob[1] == ow[1])
        check("still_related", related(sw, sb, x))

    @unit("C03/lemma/word-memory-refines-S-MEM/write_" + width, expect_reach=("value", "address-error"))
    def w():
        sb, sw, a, x = setup(n)
        v = sym_fixed("v", FT[width])
        ob = outcome(lambda: getattr(sb, "write_" + width)(a, v) or 0)
        ow = outcome(lambda: getattr(sw, "write_" + width)(a, v) or 0)
        reach(ob[0])
        check("same_outcome", ob[0] == ow[0])
        check("same_reported_address", ob[1] == ow[1])
        check("still_related", related(sw, sb, x))


for _w in WIDTH:
    register(_w)
