"""C02 -- five-stage pipeline with hazard detection is equivalent to single-cycle mode.

A. single-instruction equivalence, per mnemonic, full operand space and symbolic pc: the real five-stage
   RiscvSimulation.step, five times (the instruction's journey IF..WB), against the ISA reference (= single-cycle
   mode by C01) on every listed component, plus the redirect target after the MEM step and fault reporting.
B. two/three-instruction programs with ALL register numbers and contents symbolic (every aliasing pattern, hence
   every RAW/WAW hazard at distance 1, 2, 3): real five-stage run vs real single-cycle run on twin states.
C. control: the instructions behind a taken branch / jump / exiting ecall have no architectural effect.
D. faults: same faulting address and same registers/memory/output at the fault in both modes.
"""
from pyvc.api import *
from fixedint import UInt32
from architecture_simulator.simulation.riscv_simulation import RiscvSimulation
from architecture_simulator.simulation.runtime_errors import InstructionExecutionException
from architecture_simulator.isa.riscv.rv32i_instructions import (
    ADD, ADDI, SUB, MUL, LW, LB, SW, SB, BEQ, BNE, BLT, JAL, JALR, LUI, AUIPC, ECALL, XOR, SLL, DIV, LHU)
from contracts.rvcommon import *
from spec import rv32im as S


# ------------------------------------------------------------------------------------ A. single instruction
def single_instruction(mn, e_builder=None, prepare=None, detect=True):
    st, regs0 = havoc_state("five_stage_pipeline", detect)
    if prepare is not None:
        prepare(st, regs0)
    ins, rd, rs1, rs2, imm = build(mn)
    pc = sym_int("pc", 0, IMEM_TOP - 4)
    place(st, ins, pc)
    if e_builder is None:
        e = S.step(mn, rd, rs1, rs2, imm, lambda i: int(regs0[i]), lambda a: byte_at(st.memory, a), pc, LO)
    else:
        e = e_builder(st, regs0, pc)
    sim = RiscvSimulation(state=st)
    k = sym_int("k", 0, TOP - 1)
    mem0_k = byte_at(st.memory, k)
    pm = st.performance_metrics
    c0 = (pm.instruction_count, pm.branch_count, pm.procedure_count)
    redirects = (mn in S.BRANCHES) or mn in ("jal", "jalr") or (e.exit_code is not None)
    try:
        sim.step()      # IF
        sim.step()      # ID
        sim.step()      # EX
        sim.step()      # MEM: memory effect, control transfer resolved
        pc_after_mem = st.program_counter
        sim.step()      # WB: register write, retirement
    except InstructionExecutionException as ex:
        reach("fault")
        check("faults_only_if_reference_faults", e.fault)
        check("fault_reports_address", ex.address == pc)
        check("fault_reports_printed_form", ex.instruction_repr == repr(ins))
        check("fault_registers_unchanged", all_of([int(st.register_file.registers[j]) == int(regs0[j]) for j in range(32)]))
        check("fault_output_unchanged", st.output == OUT0)
        check("fault_no_exit_code", st.exit_code is None)
        check("fault_nothing_retired", pm.instruction_count == c0[0])
        return
    reach("normal")
    check("completes_only_if_reference_does", not e.fault)
    regs = st.register_file.registers
    ok = int(regs[0]) == 0
    for j in range(1, 32):
        want = int(regs0[j]) if e.rd is None else ite(e.rd == j, e.value, int(regs0[j]))
        ok = ok & (int(regs[j]) == want)
    check("registers", ok)
    check("register_types", all_of([type(v) is UInt32 for v in regs]))
    want_k = mem0_k
    for (a, b) in e.stores:
        want_k = ite(k == a, b, want_k)
    check("data_memory", byte_at(st.memory, k) == want_k)
    check("output", st.output == OUT0 + e.output)
    check("exit_code", (st.exit_code is None) if e.exit_code is None else (st.exit_code is not None and st.exit_code == e.exit_code))
    check("retired_count", pm.instruction_count == c0[0] + 1)
    check("branch_count", pm.branch_count == c0[1] + ite(e.taken_branch, 1, 0))
    check("call_count", pm.procedure_count == c0[2] + (1 if e.call else 0))
    if redirects:
        # after the MEM step fetch continues where single-cycle mode continues
        taken = e.taken_branch if mn in S.BRANCHES else True
        check("redirect_target", implies(taken, pc_after_mem == e.next_pc))


def instr_unit(mn):
    @unit("C02/single-instruction/" + mn, expect_reach=("normal",))
    def u():
        single_instruction(mn)
    return u


for _mn in MNEMONICS:
    if _mn != "ecall":
        instr_unit(_mn)


def ecall_unit(code):
    @unit("C02/single-instruction/ecall/a7=%d" % code, expect_reach=("normal",))
    def u():
        def prep(st, regs0):
            st.register_file.registers[17] = UInt32(code)
            regs0[17] = UInt32(code)

        def eb(st, regs0, pc):
            e = S.Effect()
            e.next_pc = pc + 4
            a0 = int(regs0[10])
            if code == 1:
                e.output = str(S.s32(a0))
            elif code == 36:
                e.output = str(a0)
            elif code == 11:
                e.output = chr(a0 % 128)
            elif code == 34:
                e.output = "0x" + format(a0, "X")
            elif code == 35:
                e.output = bin(a0)
            elif code == 10:
                e.exit_code = 0
            elif code == 93:
                e.exit_code = a0
            return e
        single_instruction("ecall", eb, prep)
    return u


for _c in (1, 10, 11, 34, 35, 36, 93):
    ecall_unit(_c)


@unit("C02/single-instruction/ecall/invalid-code", expect_reach=("fault",))
def ecall_invalid():
    def prep(st, regs0):
        assume(not S.ecall_is_valid(int(regs0[17])))

    def eb(st, regs0, pc):
        e = S.Effect()
        e.fault = True
        return e
    single_instruction("ecall", eb, prep)


# ------------------------------------------------------------------------------------ B/C/D. twin runs of small programs
def twin_states(detect=True):
    a, regs0 = havoc_state("single_stage_pipeline")
    b, _ = havoc_state("five_stage_pipeline", detect)
    return a, b, regs0


def load(st, prog):
    d = {}
    for i, ins in enumerate(prog):
        d[4 * i] = ins
    st.instruction_memory.instructions = d
    st.program_counter = 0


def run(sim, max_steps):
    """step until done (control flow is concrete per path); returns the fault or None"""
    n = 0
    try:
        while not sim.is_done():
            n = n + 1
            if n > max_steps:
                check("terminates_within_bound", False)
                return None
            sim.step()
    except InstructionExecutionException as ex:
        return ex
    return None


def compare(a, b, fa, fb, retired_order=None):
    check("same_fault_or_none", (fa is None) == (fb is None))
    if fa is not None and fb is not None:
        reach("fault")
        check("same_faulting_address", fa.address == fb.address)
        check("same_faulting_instruction_text", fa.instruction_repr == fb.instruction_repr)
    else:
        reach("finished")
    ra = a.register_file.registers
    rb = b.register_file.registers
    check("registers", all_of([int(ra[j]) == int(rb[j]) for j in range(32)]))
    k = sym_int("k", 0, TOP - 1)
    check("data_memory", byte_at(a.memory, k) == byte_at(b.memory, k))
    check("output", a.output == b.output)
    check("exit_code", (a.exit_code is None) == (b.exit_code is None) and (a.exit_code is None or a.exit_code == b.exit_code))
    if fa is None:
        pa = a.performance_metrics
        pb = b.performance_metrics
        check("retired_count", pa.instruction_count == pb.instruction_count)
        check("branch_count", pa.branch_count == pb.branch_count)
        check("call_count", pa.procedure_count == pb.procedure_count)


def equivalence(make_program, detect=True, steps_b=40, prepare=None, steps_a=12):
    a, b, regs0 = twin_states(detect)
    if prepare is not None:
        prepare(a)
        prepare(b)
    load(a, make_program())
    load(b, make_program())
    fa = run(RiscvSimulation(state=a), steps_a)
    fb = run(RiscvSimulation(state=b), steps_b)
    compare(a, b, fa, fb)


def R(name):
    return sym_int(name, 0, 31)


NOP = lambda: ADDI(0, 0, 0)

PRODUCERS = {
    "add": lambda: ADD(R("p_rd"), R("p_rs1"), R("p_rs2")),
    "lw": lambda: LW(R("p_rd"), R("p_rs1"), sym_int("p_imm", -2048, 2047)),
    "lui": lambda: LUI(R("p_rd"), sym_int("p_imm", 0, 2 ** 20 - 1)),
    "jal+8": None,   # handled separately (control)
    "mul": lambda: MUL(R("p_rd"), R("p_rs1"), R("p_rs2")),
}
CONSUMERS = {
    "add": lambda: ADD(R("c_rd"), R("c_rs1"), R("c_rs2")),
    "sw": lambda: SW(R("c_rs1"), R("c_rs2"), sym_int("c_imm", -2048, 2047)),
    "lw": lambda: LW(R("c_rd"), R("c_rs1"), sym_int("c_imm", -2048, 2047)),
    "beq+8": lambda: BEQ(R("c_rs1"), R("c_rs2"), 8),
    "jalr": None,
}


def pair_unit(pn, cn, dist, tier):
    @unit("C02/pair/%s-then-%s/distance=%d" % (pn, cn, dist), tier=tier, expect_reach=("finished",))
    def u():
        def prog():
            p = [PRODUCERS[pn]()]
            for _ in range(dist - 1):
                p.append(NOP())
            p.append(CONSUMERS[cn]())
            p.append(ADDI(R("t_rd"), R("t_rs1"), 1))      # a trailing instruction (skipped by a taken beq+8)
            p.append(ADD(R("u_rd"), R("u_rs1"), R("u_rs2")))
            return p
        equivalence(prog)
    return u


for _pn in ("add", "lw", "lui", "mul"):
    for _cn in ("add", "sw", "lw", "beq+8"):
        for _d in (1, 2, 3):
            quick = (_pn in ("add", "lw") and _cn in ("add", "sw", "beq+8")) and _d in (1, 2) or (_pn == "add" and _cn == "add")
            pair_unit(_pn, _cn, _d, "quick" if quick else "thorough")


# control: instructions younger than a taken branch / jump / exiting ecall must have no effect.
# The wrong-path candidates use fixed register numbers (their contents stay arbitrary): what matters is that they
# have NO effect, and fixed numbers avoid multiplying paths by aliasing cases that the pair units already cover.
VICTIMS = {
    "store": lambda: [SW(6, 7, sym_int("w_imm", -2048, 2047)), SB(8, 9, 3)],
    "alu": lambda: [ADD(5, 6, 7), LUI(8, 77)],
    "load": lambda: [LW(5, 6, sym_int("l_imm", -2048, 2047)), ADDI(7, 5, 1)],
    "print-ecall": lambda: [ECALL(), ADDI(5, 5, 1)],
    "branch": lambda: [BEQ(0, 0, 8), ADDI(5, 5, 1), ADDI(6, 6, 1)],
}


def control_unit(name, head, victim, tier="quick", a7=None):
    @unit("C02/control/%s/then-%s" % (name, victim), tier=tier, expect_reach=("finished",))
    def u():
        def prog():
            return head() + VICTIMS[victim]() + [ADDI(R("z_rd"), R("z_rs1"), 5)]

        def prep(st):
            if a7 is not None:
                st.register_file.registers[17] = UInt32(a7)
        equivalence(prog, prepare=prep)
    return u


HEADS = {
    "beq+12": lambda: [BEQ(R("b_rs1"), R("b_rs2"), 12)],
    "bne+8": lambda: [BNE(R("b_rs1"), R("b_rs2"), 8)],
    "jal+12": lambda: [JAL(R("j_rd"), 12, 12)],
    # (destination limited to x0..x9 so that a following print-ecall keeps its code in a7)
    "add-then-blt+12": lambda: [ADD(sym_int("p_rd", 0, 9), R("p_rs1"), R("p_rs2")), BLT(R("b_rs1"), R("b_rs2"), 12)],
    "exit-ecall": lambda: [ECALL()],
}
for _h in HEADS:
    for _v in VICTIMS:
        _quick = (_h in ("beq+12", "jal+12", "exit-ecall") and _v in ("store", "alu", "print-ecall")) or (_h == "add-then-blt+12" and _v == "store")
        if _h == "exit-ecall":
            control_unit(_h, HEADS[_h], _v, "quick" if _quick else "thorough", a7=93)
        else:
            control_unit(_h, HEADS[_h], _v, "quick" if _quick else "thorough", a7=1 if _v == "print-ecall" else None)


@unit("C02/control/print-ecall-behind-load", expect_reach=("finished",))
def ecall_behind_load():
    def prog():
        return [LW(10, R("l_rs1"), sym_int("l_imm", -2048, 2047)), ECALL(), ADDI(R("z_rd"), R("z_rs1"), 5)]

    def prep(st):
        st.register_file.registers[17] = UInt32(36)
    equivalence(prog, prepare=prep)


@unit("C02/control/jalr-to-symbolic-target", expect_reach=("finished",))
def jalr_unit():
    def prog():
        # x1 := one of the instruction addresses 8, 12, 16 (or beyond the program), then jump there
        return [ADDI(1, 0, 4 * sym_int("slot", 2, 5)), JALR(R("j_rd"), 1, 0),
                ADDI(5, 5, 1), SW(6, 7, sym_int("w_imm", -2048, 2047)), ADD(8, 5, 9)]
    equivalence(prog)


# mixed situations: interactions of stalls, flushes, ecalls and memory dependencies
MIX = {
    "load-feeds-jalr": (lambda: [ADDI(5, 0, 4 * sym_int("slot", 4, 7)), SW(3, 5, 0), LW(6, 3, 0), JALR(R("j_rd"), 6, 0), ADDI(7, 7, 1), ADDI(8, 8, 1), ADD(9, R("a"), R("b"))], None),
    "back-to-back-branches": (lambda: [BEQ(R("b1_rs1"), R("b1_rs2"), 8), BNE(R("b2_rs1"), R("b2_rs2"), 8), ADDI(5, 5, 1), ADDI(6, 6, 1), ADDI(7, 7, 1)], None),
    # (destination registers limited to x0..x9 so that a7 keeps the print code)
    "stall-then-print-ecall": (lambda: [ADD(sym_int("p_rd", 0, 9), R("p_rs1"), R("p_rs2")), ADD(sym_int("c_rd", 0, 9), R("c_rs1"), R("c_rs2")), ECALL(), ADDI(8, 8, 1)], 1),
    # an ecall squashed while it waits behind a taken branch, then an ecall whose argument is produced right before it
    "squashed-ecall-then-stall-then-print-ecall": (lambda: [BEQ(R("b_rs1"), R("b_rs2"), 8), ECALL(), ADD(sym_int("p_rd", 0, 10), R("p_rs1"), R("p_rs2")),
                                                            ADD(sym_int("c_rd", 0, 10), R("c_rs1"), R("c_rs2")), ECALL(), ADDI(8, 8, 1)], 1),
    "wrong-path-stall-cancelled-by-flush": (lambda: [BEQ(R("b_rs1"), R("b_rs2"), 12), ADD(5, 6, 7), ADD(8, 5, 5), ADDI(9, 9, 1), ADD(R("z_rd"), R("z_rs1"), 5)], None),
    "store-then-load-same-address": (lambda: [SW(3, R("v"), 4), LW(R("l_rd"), 3, 4), ADD(R("c_rd"), R("c_rs1"), R("c_rs2"))], None),
    "branch-reads-loaded-value": (lambda: [LW(5, 3, 0), BEQ(5, R("b_rs2"), 8), ADDI(6, 6, 1), ADDI(7, 7, 1)], None),
    "jal-link-register-consumed": (lambda: [JAL(R("j_rd"), 8, 8), ADDI(5, 5, 1), ADD(R("c_rd"), R("c_rs1"), R("c_rs2")), ADDI(7, 7, 1)], None),
}


def mix_unit(name, tier="quick"):
    @unit("C02/mix/" + name, tier=tier, expect_reach=("finished",))
    def u():
        prog, a7 = MIX[name]

        def prep(st):
            st.register_file.registers[3] = UInt32(LO + 64)
            if a7 is not None:
                st.register_file.registers[17] = UInt32(a7)
        equivalence(prog, prepare=prep)


for _n in MIX:
    mix_unit(_n)


# faults: older instructions have completed, younger ones have had no effect, same address reported
@unit("C02/fault/load-between-alu", expect_reach=("fault", "finished"))
def fault_load():
    def prog():
        return [ADD(R("p_rd"), R("p_rs1"), R("p_rs2")), LW(R("l_rd"), R("l_rs1"), sym_int("l_imm", -2048, 2047)),
                SW(6, 7, sym_int("w_imm", -2048, 2047)), ADD(8, 9, 10)]
    equivalence(prog)


@unit("C02/fault/invalid-ecall-behind-store", expect_reach=("fault", "finished"))
def fault_ecall():
    def prog():
        return [SW(R("w_rs1"), R("w_rs2"), sym_int("w_imm", -2048, 2047)), ECALL(), ADD(8, 9, 10)]

    def prep(st):
        # any ecall code except 4 (print-string: an unbounded loop over memory, covered with a length bound in C01)
        assume(int(st.register_file.registers[17]) != 4)
    equivalence(prog, prepare=prep)


@unit("C02/canary/hazard-detection-off-is-equivalent", canary=True)
def canary_no_interlock():
    def prog():
        return [ADD(R("p_rd"), R("p_rs1"), R("p_rs2")), ADD(R("c_rd"), R("c_rs1"), R("c_rs2"))]
    equivalence(prog, detect=False)
