"""C03 / C09 / C12 -- data cache: transparency, accounting, write-policy invariants.

Per configuration g = (index bits, block bits, associativity, wb|wt, lru|plru) the pre-state is ANY
well-formed cache state (wf_cache, below) over ANY backing memory, the address/value/flags are
arbitrary, and the post-conditions are stated for EVERY byte of the logical view (skolem x).  Each
unit is therefore an inductive step; together with the constructor unit the claims hold after
access histories of any length.  Geometry parameters are literals of the unit (loops unroll exactly).

Abstract view  L(x) = byte of the resident block holding x, else backing M(x).
"""
from pyvc.api import *
from fixedint import UInt8, UInt16, UInt32
from architecture_simulator.uarch.memory.write_back_memory_system import WriteBackMemorySystem
from architecture_simulator.uarch.memory.write_through_memory_system import WriteThroughMemorySystem
from architecture_simulator.uarch.memory.decoded_address import DecodedAddress
from architecture_simulator.uarch.memory.replacement_strategies import LRU, PLRU
from architecture_simulator.uarch.memory.memory import MemoryAddressError
from architecture_simulator.util.integer_manipulation import ByteOffsetError
from architecture_simulator.uarch.riscv.riscv_performance_metrics import RiscvPerformanceMetrics
from contracts.rvcommon import data_memory, word_memory, byte_at, LO, TOP

QUICK = [(0, 0, 1), (1, 0, 1), (0, 1, 1), (0, 0, 2), (1, 0, 2), (1, 1, 2)]
THOROUGH = [(0, 1, 2), (0, 0, 4), (2, 0, 1), (0, 2, 1), (0, 0, 3), (2, 1, 2), (1, 1, 4)]
KINDS = [("wb", "lru"), ("wt", "lru"), ("wb", "plru"), ("wt", "plru")]


class G:
    def __init__(self, ib, bb, assoc, kind, pol):
        self.ib = ib
        self.bb = bb
        self.assoc = assoc
        self.kind = kind
        self.pol = pol
        self.nsets = 2 ** ib
        self.nwords = 2 ** bb
        self.name = "ib=%d,bb=%d,a=%d,%s,%s" % (ib, bb, assoc, kind, pol)


# ------------------------------------------------------------------ address arithmetic of the specification (A.1)
def tag_of(g, x):
    return x // 2 ** (g.ib + g.bb + 2)


def set_of(g, x):
    return (x // 2 ** (g.bb + 2)) % 2 ** g.ib


def bo_of(g, x):
    return (x // 4) % 2 ** g.bb


def base_of(g, x):
    return x - x % 2 ** (g.bb + 2)


class A:
    """An address given by its fields.  Every integer has exactly one decomposition
         addr = wrap*2**32 + tag*2**(ib+bb+2) + set*2**(bb+2) + bo*4 + lane
    (wrap limited to [-2, 2]: addresses from -2**33 to 3*2**32).  Working with the fields instead of slicing a
    flat integer keeps the obligations free of div/mod chains; set/bo/lane may be concrete."""

    def __init__(self, g, tag, st, bo, lane, wrap=0):
        self.tag = tag
        self.set = st
        self.bo = bo
        self.lane = lane
        self.m = tag * 2 ** (g.ib + g.bb + 2) + st * 2 ** (g.bb + 2) + bo * 4 + lane      # address modulo 2**32
        self.addr = self.m + wrap * 2 ** 32

    def plus(self, g, i):
        """the byte i lanes further inside the same word (caller guarantees lane + i <= 3)"""
        return A(g, self.tag, self.set, self.bo, self.lane + i)


def sym_addr(g, name, set_concrete=None, wrap=False, concrete_low=False):
    tagbits = 32 - g.ib - g.bb - 2
    tag = sym_int(name + "_tag", 0, 2 ** tagbits - 1)
    if set_concrete is not None:
        st = set_concrete
    elif g.ib > 0:
        st = sym_int(name + "_set", 0, g.nsets - 1)
    else:
        st = 0
    bo = sym_int(name + "_bo", 0, g.nwords - 1) if g.bb > 0 else 0
    lane = sym_int(name + "_lane", 0, 3)
    if concrete_low:
        st, bo, lane = split(st), split(bo), split(lane)
    w = sym_int(name + "_wrap", -2, 2) if wrap else 0
    return A(g, tag, st, bo, lane, w)


def all_x(g):
    """The skolem byte address, as one address per concrete (set, block offset, lane) with a shared arbitrary tag."""
    tagbits = 32 - g.ib - g.bb - 2
    tag = sym_int("x_tag", 0, 2 ** tagbits - 1)
    out = []
    for st in range(g.nsets):
        for bo in range(g.nwords):
            for lane in range(4):
                out.append(A(g, tag, st, bo, lane))
    return out


# ------------------------------------------------------------------ state builder
def build(g, bytes_backing=False):
    """Real constructor, then havoc everything wf_cache lets vary."""
    cls = WriteBackMemorySystem if g.kind == "wb" else WriteThroughMemorySystem
    pm = RiscvPerformanceMetrics()
    pm.cycles = sym_int("cycles", 0)
    ms = cls(memory=data_memory("M") if bytes_backing else word_memory("MW"), num_index_bits=g.ib, num_block_bits=g.bb, associativity=g.assoc,
             performance_metrics=pm, miss_penality=sym_int("penalty", 0), replacement_strategy=g.pol)
    ms.hits = sym_int("hits", 0)
    ms.accesses = sym_int("accesses", 0)
    ms.last_was_hit = sym_bool("last_hit")
    for s in range(g.nsets):
        cs = ms.cache.sets[s]
        for w in range(g.assoc):
            b = cs.blocks[w]
            b.valid_bit = sym_bool("v_%d_%d" % (s, w))
            b.dirty_bit = sym_bool("d_%d_%d" % (s, w))
            ad = sym_addr(g, "addr_%d_%d" % (s, w), set_concrete=s)
            assume(ad.addr >= LO)
            b.decoded_address = DecodedAddress(g.ib, g.bb, ad.addr)
            b.values = [sym_fixed("w_%d_%d_%d" % (s, w, i), UInt32) for i in range(g.nwords)]
            assume(implies(not b.valid_bit, not b.dirty_bit))
        for w1 in range(g.assoc):
            for w2 in range(w1 + 1, g.assoc):
                b1 = cs.blocks[w1]
                b2 = cs.blocks[w2]
                assume(implies(b1.valid_bit & b2.valid_bit, b1.decoded_address.tag != b2.decoded_address.tag))
        pol = cs.replacement_strategy
        if g.pol == "lru":
            perm = [sym_int("lru_%d_%d" % (s, j), 0, g.assoc - 1) for j in range(g.assoc)]
            for a in range(g.assoc):
                for b_ in range(a + 1, g.assoc):
                    assume(perm[a] != perm[b_])
            pol.lru = perm
        else:
            pol.tree_array = [sym_bool("plru_%d_%d" % (s, j)) for j in range(g.assoc - 1)]
    if native():
        # native runs (replay, bounded adjudication): the backing store is made to agree with the blocks that must be
        # clean copies -- a no-op for a counter-model (it satisfies the assumption below), and what makes the random
        # search of the adjudicator reach states with valid blocks at all
        for s in range(g.nsets):
            for w in range(g.assoc):
                b = ms.cache.sets[s].blocks[w]
                if b.valid_bit and (g.kind == "wt" or not b.dirty_bit):
                    for i in range(g.nwords):
                        for k in range(4):
                            ms.memory.memory_file[b.decoded_address.block_alinged_address + 4 * i + k] = UInt8((int(b.values[i]) >> (8 * k)) & 255)
    # clean valid blocks (and every valid block of a write-through cache) equal their backing words
    for s in range(g.nsets):
        for w in range(g.assoc):
            b = ms.cache.sets[s].blocks[w]
            for i in range(g.nwords):
                eqb = int(b.values[i]) == backing_word(ms, b.decoded_address.block_alinged_address + 4 * i)
                if g.kind == "wt":
                    assume(implies(b.valid_bit, eqb))
                else:
                    assume(implies(b.valid_bit & (not b.dirty_bit), eqb))
    return ms


def backing_byte(ms, x):
    return byte_at(ms.memory, x)


def backing_word(ms, a):
    """backing word at the aligned address a"""
    if not native() and hasattr(ms.memory, "W"):
        return ms.memory.word(a)
    return backing_byte(ms, a) + 256 * backing_byte(ms, a + 1) + 65536 * backing_byte(ms, a + 2) + 16777216 * backing_byte(ms, a + 3)


def resident(g, ms, x):
    """is the block of address x (an A) resident?"""
    r = False
    for s in range(g.nsets):
        if x.set is not s and type(x.set) is int and x.set != s:
            continue
        for w in range(g.assoc):
            b = ms.cache.sets[s].blocks[w]
            r = r | (b.valid_bit & (x.set == s) & (b.decoded_address.tag == x.tag))
    return r


def view(g, ms, x):
    """L(x) for an address x given by fields"""
    v = backing_byte(ms, x.m)
    for s in range(g.nsets):
        if type(x.set) is int and x.set != s:
            continue
        for w in range(g.assoc):
            b = ms.cache.sets[s].blocks[w]
            hit = b.valid_bit & (x.set == s) & (b.decoded_address.tag == x.tag)
            vals = b.values if len(b.values) == g.nwords else [UInt32(0)] * g.nwords     # fresh (invalid) blocks hold no words
            word = int(vals[x.bo]) if type(x.bo) is int else 0
            if type(x.bo) is not int:
                for i in range(g.nwords):
                    word = ite(x.bo == i, int(vals[i]), word)
            v = ite(hit, lane_byte(word, x.lane), v)
    return v


def lane_byte(word, lane):
    """byte `lane` (0..3) of a 32-bit word, little-endian, without a symbolic exponent"""
    if type(lane) is int:
        return (word // 256 ** lane) % 256
    return ite(lane == 0, word % 256, ite(lane == 1, (word // 256) % 256, ite(lane == 2, (word // 65536) % 256, word // 16777216)))


def wf(g, ms):
    ok = (len(ms.cache.sets) == g.nsets)
    # no sharing between sets: every set has its own policy object and its own block objects
    for s1 in range(g.nsets):
        for s2 in range(s1 + 1, g.nsets):
            ok = ok & (ms.cache.sets[s1] is not ms.cache.sets[s2]) & (ms.cache.sets[s1].replacement_strategy is not ms.cache.sets[s2].replacement_strategy)
            ok = ok & (ms.cache.sets[s1].blocks is not ms.cache.sets[s2].blocks)
    for s in range(g.nsets):
        for w1 in range(g.assoc):
            for w2 in range(w1 + 1, g.assoc):
                ok = ok & (ms.cache.sets[s].blocks[w1] is not ms.cache.sets[s].blocks[w2])
    for s in range(g.nsets):
        cs = ms.cache.sets[s]
        ok = ok & (len(cs.blocks) == g.assoc)
        for w in range(g.assoc):
            b = cs.blocks[w]
            da = b.decoded_address
            vb = b.valid_bit
            ok = ok & (type(vb) is bool) & (type(b.dirty_bit) is bool)
            ok = ok & implies(not vb, not b.dirty_bit)
            if vb is not False:
                ok = ok & implies(vb, len(b.values) == g.nwords)
                ok = ok & implies(vb, (da.cache_set_index == s) & (da.num_index_bits == g.ib) & (da.num_block_bits == g.bb)
                                  & (da.tag == tag_of(g, da.full_address)) & (da.block_alinged_address == base_of(g, da.full_address))
                                  & (LO <= da.full_address) & (da.full_address < TOP) & (set_of(g, da.full_address) == s))
                if len(b.values) == g.nwords:
                    for i in range(g.nwords):
                        ok = ok & implies(vb, type(b.values[i]) is UInt32)
                        eqb = int(b.values[i]) == backing_word(ms, da.block_alinged_address + 4 * i)
                        if g.kind == "wt":
                            ok = ok & implies(vb, eqb)
                        else:
                            ok = ok & implies(vb & (not b.dirty_bit), eqb)
        for w1 in range(g.assoc):
            for w2 in range(w1 + 1, g.assoc):
                b1 = cs.blocks[w1]
                b2 = cs.blocks[w2]
                ok = ok & implies(b1.valid_bit & b2.valid_bit, b1.decoded_address.tag != b2.decoded_address.tag)
                ok = ok & (b1.values is not b2.values)
        pol = cs.replacement_strategy
        if g.pol == "lru":
            ok = ok & (len(pol.lru) == g.assoc)
            for a in range(g.assoc):
                ok = ok & (0 <= pol.lru[a]) & (pol.lru[a] < g.assoc)
                for b_ in range(a + 1, g.assoc):
                    ok = ok & (pol.lru[a] != pol.lru[b_])
        else:
            ok = ok & (len(pol.tree_array) == g.assoc - 1) & all_of([type(t) is bool for t in pol.tree_array])
    return ok


def spec_value(g, ms, a, n):
    """little-endian composition of the n logical bytes at a (only meaningful for word-contained accesses)"""
    v = 0
    for i in range(n):
        if a.lane + i <= 3:
            v = v + view(g, ms, a.plus(g, i)) * 256 ** i
    return v


def rejected(a, n):
    """S-MEM (word_contained): the access crosses a word boundary or touches an invalid address"""
    return (a.lane + n > 4) | (a.m < LO)


# ------------------------------------------------------------------ reference accounting (S-CACHE)
def policy_twin(g, pol):
    t = LRU(g.assoc) if g.pol == "lru" else PLRU(g.assoc)
    if g.pol == "lru":
        t.lru = list(pol.lru)
    else:
        t.tree_array = list(pol.tree_array)
    return t


def policy_eq(g, p, q):
    if g.pol == "lru":
        return all_of([p.lru[i] == q.lru[i] for i in range(g.assoc)]) if len(p.lru) == g.assoc and len(q.lru) == g.assoc else False
    return all_of([p.tree_array[i] == q.tree_array[i] for i in range(g.assoc - 1)])


class Ref:
    """Reference set-associative cache (valid, tag per way + policy), fed one access."""

    def __init__(self, g, ms):
        self.g = g
        self.valid = [[ms.cache.sets[s].blocks[w].valid_bit for w in range(g.assoc)] for s in range(g.nsets)]
        self.tag = [[ms.cache.sets[s].blocks[w].decoded_address.tag for w in range(g.assoc)] for s in range(g.nsets)]
        self.pol = [policy_twin(g, ms.cache.sets[s].replacement_strategy) for s in range(g.nsets)]

    def access(self, a, allocate_on_miss):
        """-> hit (symbolic).  The policy objects are the real classes, used through their C10 contracts."""
        g = self.g
        hit_any = False
        for s in range(g.nsets):
            in_set = a.set == s
            hit = False
            hit_way = 0
            for w in range(g.assoc):
                h = self.valid[s][w] & (self.tag[s][w] == a.tag)
                hit_way = ite(h, w, hit_way)
                hit = hit | h
            victim = self.pol[s].get_next_to_replace()
            fill = in_set & (not hit) & allocate_on_miss
            touch = in_set & (hit | allocate_on_miss)
            way = ite(hit, hit_way, victim)
            for w in range(g.assoc):
                self.valid[s][w] = ite(fill & (way == w), True, self.valid[s][w])
                self.tag[s][w] = ite(fill & (way == w), a.tag, self.tag[s][w])
            twin = policy_twin(g, self.pol[s])
            twin.access(way)
            if g.pol == "lru":
                self.pol[s].lru = [ite(touch, twin.lru[i], self.pol[s].lru[i]) for i in range(g.assoc)]
            else:
                self.pol[s].tree_array = [ite(touch, twin.tree_array[i], self.pol[s].tree_array[i]) for i in range(g.assoc - 1)]
            hit_any = hit_any | (in_set & hit)
        return hit_any

    def matches(self, ms):
        g = self.g
        ok = True
        for s in range(g.nsets):
            for w in range(g.assoc):
                b = ms.cache.sets[s].blocks[w]
                ok = ok & (b.valid_bit == self.valid[s][w]) & implies(b.valid_bit, b.decoded_address.tag == self.tag[s][w])
            ok = ok & policy_eq(g, ms.cache.sets[s].replacement_strategy, self.pol[s])
        return ok


# ------------------------------------------------------------------ operation contracts
WIDTH = {"byte": 1, "halfword": 2, "word": 4}
FT = {"byte": UInt8, "halfword": UInt16, "word": UInt32}


def counters(ms):
    return (ms.hits, ms.accesses, ms.last_was_hit, ms.performance_metrics.cycles)


def read_unit(g, width, focus):
    n = WIDTH[width]
    ms = build(g)
    a = sym_addr(g, "a", wrap=True, concrete_low=True)
    counted = sym_bool("counted")
    xs = all_x(g)
    L0 = [view(g, ms, x) for x in xs]
    M0 = [backing_byte(ms, x.m) for x in xs]
    want = spec_value(g, ms, a, n)
    rej = rejected(a, n)
    c0 = counters(ms)
    penalty = ms.miss_penality
    ref = Ref(g, ms)
    was_resident = resident(g, ms, a)
    meth = getattr(ms, "read_" + width)
    try:
        r = meth(a.addr, counted)
    except (ByteOffsetError, MemoryAddressError) as e:
        reach("rejected")
        if focus == "C03":
            check("rejects_only_word_crossing_or_out_of_range", rej)
            check("rejected_read_leaves_logical_contents", all_of([view(g, ms, x) == L0[i] for i, x in enumerate(xs)]))
            check("wf_preserved_on_rejection", wf(g, ms))
        return
    reach("answered")
    if focus == "C03":
        check("answers_only_accepted_accesses", not rej)
        check("value_equals_flat_memory", int(r) == want)
        check("result_type", type(r) is FT[width])
        check("logical_contents_unchanged", all_of([view(g, ms, x) == L0[i] for i, x in enumerate(xs)]))
        check("wf_preserved", wf(g, ms))
    if focus == "C12":
        check("wf_preserved", wf(g, ms))
        if g.kind == "wt":
            check("backing_equals_logical", all_of([backing_byte(ms, x.m) == view(g, ms, x) for x in xs]))
            check("backing_unchanged_by_read", all_of([backing_byte(ms, x.m) == M0[i] for i, x in enumerate(xs)]))
        else:
            check("backing_differs_only_where_resident", all_of([implies(backing_byte(ms, x.m) != view(g, ms, x), resident(g, ms, x)) for x in xs]))
            check("no_written_value_lost", all_of([view(g, ms, x) == L0[i] for i, x in enumerate(xs)]))
    if focus == "C09":
        hit = ref.access(a, True)
        check("hit_iff_block_was_resident", hit == was_resident)
        check("residency_and_policy_match_reference", ref.matches(ms))
        check("access_counter", ms.accesses == c0[1] + ite(counted, 1, 0))
        check("hit_counter", ms.hits == c0[0] + ite(counted & hit, 1, 0))
        check("last_hit_flag", ms.last_was_hit == ite(counted, hit, c0[2]))
        check("miss_penalty_cycles", ms.performance_metrics.cycles == c0[3] + ite(counted & (not hit), penalty, 0))


def written(a, n, v, x, old):
    """the logical byte at x after storing the n bytes of v at a (word-contained access)"""
    want = old
    for i in range(n):
        if a.lane + i <= 3:
            same = (x.tag == a.tag) & (x.set == a.set) & (x.bo == a.bo) & (x.lane == a.lane + i)
            want = ite(same, (int(v) // 256 ** i) % 256, want)
    return want


def write_unit(g, width, focus):
    n = WIDTH[width]
    ms = build(g)
    a = sym_addr(g, "a", wrap=True, concrete_low=True)
    v = sym_fixed("v", FT[width])
    xs = all_x(g)
    L0 = [view(g, ms, x) for x in xs]
    rej = rejected(a, n)
    c0 = counters(ms)
    penalty = ms.miss_penality
    ref = Ref(g, ms)
    was_resident = resident(g, ms, a)
    want = [written(a, n, v, x, L0[i]) for i, x in enumerate(xs)]
    meth = getattr(ms, "write_" + width)
    try:
        meth(a.addr, v)
    except (ByteOffsetError, MemoryAddressError) as e:
        reach("rejected")
        if focus == "C03":
            check("rejects_only_word_crossing_or_out_of_range", rej)
            check("rejected_write_leaves_every_stored_value", all_of([view(g, ms, x) == L0[i] for i, x in enumerate(xs)]))
            check("wf_preserved_on_rejection", wf(g, ms))
        if focus == "C12" and g.kind == "wt":
            check("backing_equals_logical_after_rejection", all_of([backing_byte(ms, x.m) == view(g, ms, x) for x in xs]))
        return
    reach("accepted")
    if focus == "C03":
        check("accepts_only_word_contained_in_range", not rej)
        check("logical_contents_updated_exactly", all_of([view(g, ms, x) == want[i] for i, x in enumerate(xs)]))
        check("wf_preserved", wf(g, ms))
    if focus == "C12":
        check("wf_preserved", wf(g, ms))
        if g.kind == "wt":
            check("backing_equals_logical", all_of([backing_byte(ms, x.m) == view(g, ms, x) for x in xs]))
            check("backing_is_current", all_of([backing_byte(ms, x.m) == want[i] for i, x in enumerate(xs)]))
        else:
            check("backing_differs_only_where_resident", all_of([implies(backing_byte(ms, x.m) != view(g, ms, x), resident(g, ms, x)) for x in xs]))
            check("no_written_value_lost", all_of([view(g, ms, x) == want[i] for i, x in enumerate(xs)]))
    if focus == "C09":
        hit = ref.access(a, g.kind == "wb")      # write-back: write-allocate; write-through: no-write-allocate
        check("hit_iff_block_was_resident", hit == was_resident)
        check("residency_and_policy_match_reference", ref.matches(ms))
        check("access_counter", ms.accesses == c0[1] + 1)
        check("hit_counter", ms.hits == c0[0] + ite(hit, 1, 0))
        check("last_hit_flag", ms.last_was_hit == hit)
        check("miss_penalty_cycles", ms.performance_metrics.cycles == c0[3] + ite(hit, 0, penalty))


def direct_write_unit(g, width, focus):
    """Parser preload: directly_write_to_lower_memory=True, any alignment.  Precondition (established by reset()
    before parsing): no touched block is resident."""
    n = WIDTH[width]
    ms = build(g, bytes_backing=True)
    a = sym_int("a", -2 ** 33, 2 ** 33)
    v = sym_fixed("v", FT[width])
    xf = sym_addr(g, "x")
    x = xf.m
    for s in range(g.nsets):
        for w in range(g.assoc):
            b = ms.cache.sets[s].blocks[w]
            for i in range(n):
                assume(implies(b.valid_bit, b.decoded_address.block_alinged_address != base_of(g, (a + i) % TOP)))
    Lx0 = view(g, ms, xf)
    c0 = counters(ms)
    shape = snapshot(ms.cache)
    want_x = Lx0
    alive = True
    for i in range(n):
        alive = alive & ((a + i) % TOP >= LO)
        want_x = ite(alive & (x == (a + i) % TOP), (int(v) // 256 ** i) % 256, want_x)
    meth = getattr(ms, "write_" + width)
    try:
        meth(a, v, True)
    except MemoryAddressError as e:
        reach("rejected")
        if focus == "C09":
            check("counters_untouched", (ms.hits == c0[0]) & (ms.accesses == c0[1]) & (ms.last_was_hit == c0[2]) & (ms.performance_metrics.cycles == c0[3]))
        return
    reach("accepted")
    if focus == "C03":
        check("preload_updates_logical_contents", view(g, ms, xf) == want_x)
        check("wf_preserved", wf(g, ms))
    if focus == "C09":
        check("counters_untouched", (ms.hits == c0[0]) & (ms.accesses == c0[1]) & (ms.last_was_hit == c0[2]) & (ms.performance_metrics.cycles == c0[3]))
        check_same("cache_untouched", shape, snapshot(ms.cache))


def constructor_unit(g, focus):
    cls = WriteBackMemorySystem if g.kind == "wb" else WriteThroughMemorySystem
    pm = RiscvPerformanceMetrics()
    ms = cls(memory=data_memory("M"), num_index_bits=g.ib, num_block_bits=g.bb, associativity=g.assoc,
             performance_metrics=pm, miss_penality=sym_int("penalty", 0), replacement_strategy=g.pol)
    x = sym_addr(g, "x")
    check("wf_established", wf(g, ms))
    check("nothing_resident", not resident(g, ms, x))
    check("logical_equals_backing", view(g, ms, x) == backing_byte(ms, x.m))
    check("counters_zero", ms.hits == 0 and ms.accesses == 0 and ms.last_was_hit is False)
    check("policy_class", type(ms.cache.sets[0].replacement_strategy) is (LRU if g.pol == "lru" else PLRU))
    # reset(): again an empty cache over an empty backing memory (used by load_program)
    if not native():
        ms.reset()
        check("reset_wf", wf(g, ms))
        check("reset_nothing_resident", not resident(g, ms, x))


def register(g, tier):
    for focus in ("C03", "C09", "C12"):
        if True:
            def mk_c(focus=focus):
                @unit("%s/%s.__init__/%s" % (focus, g.kind.upper(), g.name), tier=tier)
                def u():
                    constructor_unit(g, focus)
            mk_c()
        for width in ("byte", "halfword", "word"):
            def mk(width=width, focus=focus):
                @unit("%s/%s.read_%s/%s" % (focus, g.kind.upper(), width, g.name), tier=tier,
                      expect_reach=("answered",) + (("rejected",) if focus == "C03" else ()))
                def ur():
                    read_unit(g, width, focus)

                @unit("%s/%s.write_%s/%s" % (focus, g.kind.upper(), width, g.name), tier=tier,
                      expect_reach=("accepted",) + (("rejected",) if focus == "C03" else ()))
                def uw():
                    write_unit(g, width, focus)
                if focus != "C12":
                    @unit("%s/%s.write_%s-direct/%s" % (focus, g.kind.upper(), width, g.name), tier=tier, expect_reach=("accepted",))
                    def ud():
                        direct_write_unit(g, width, focus)
            mk()


for (_ib, _bb, _a) in QUICK:
    for (_k, _p) in KINDS:
        if _p == "plru" and (_a & (_a - 1)) != 0:
            continue
        register(G(_ib, _bb, _a, _k, _p), "quick")
for (_ib, _bb, _a) in THOROUGH:
    for (_k, _p) in KINDS:
        if _p == "plru" and (_a & (_a - 1)) != 0:
            continue
        register(G(_ib, _bb, _a, _k, _p), "thorough")


@unit("C03/canary/stale-read", canary=True)
def canary_stale():
    g = G(0, 0, 1, "wb", "lru")
    ms = build(g)
    a = sym_int("a", LO, TOP - 4)
    assume(a % 4 == 0)
    r = ms.read_word(a)
    check("read_returns_backing_memory", int(r) == backing_word(ms, a))


@unit("C09/canary/every-access-hits", canary=True)
def canary_hits():
    g = G(0, 0, 1, "wb", "lru")
    ms = build(g)
    h0 = ms.hits
    ms.read_byte(sym_int("a", LO, TOP - 1))
    check("always_hit", ms.hits == h0 + 1)


@unit("C12/canary/write-back-keeps-backing-current", canary=True)
def canary_wb_current():
    g = G(0, 0, 1, "wb", "lru")
    ms = build(g)
    x = sym_addr(g, "x")
    ms.write_byte(sym_int("a", LO, TOP - 1), sym_fixed("v", UInt8))
    check("backing_equals_logical", backing_byte(ms, x.m) == view(g, ms, x))
