"""State constructor wiring (C03 / C09 / C11): RiscvArchitecturalState / RiscvSimulation build the memory systems the
CacheOptions ask for -- kind, geometry, replacement policy, miss penalty, shared performance-metrics object -- for the
data cache and the instruction cache independently."""
from pyvc.api import *
from architecture_simulator.uarch.memory.cache import CacheOptions
from architecture_simulator.uarch.riscv.riscv_architectural_state import RiscvArchitecturalState
from architecture_simulator.simulation.riscv_simulation import RiscvSimulation
from architecture_simulator.uarch.memory.write_back_memory_system import WriteBackMemorySystem
from architecture_simulator.uarch.memory.write_through_memory_system import WriteThroughMemorySystem
from architecture_simulator.uarch.memory.instruction_memory_cache_system import InstructionMemoryCacheSystem
from architecture_simulator.uarch.memory.instruction_memory import InstructionMemory
from architecture_simulator.uarch.memory.memory import Memory
from architecture_simulator.uarch.memory.replacement_strategies import LRU, PLRU


def opts(enable, ib, bb, assoc, kind, pol, pen):
    return CacheOptions(enable=enable, num_index_bits=ib, num_block_bits=bb, associativity=assoc, cache_type=kind,
                        replacement_strategy=pol, miss_penalty=pen)


def check_cache(prefix, ms, o, pm):
    check(prefix + "geometry", ms.cache.num_index_bits == o.num_index_bits and ms.cache.num_block_bits == o.num_block_bits
          and len(ms.cache.sets) == 2 ** o.num_index_bits and len(ms.cache.sets[0].blocks) == o.associativity
          and ms.cache.num_words_in_block == 2 ** o.num_block_bits)
    check(prefix + "replacement_policy", all_of([type(s.replacement_strategy) is (LRU if o.replacement_strategy == "lru" else PLRU) for s in ms.cache.sets]))
    check(prefix + "miss_penalty", ms.miss_penality == o.miss_penalty)
    check(prefix + "shares_the_state's_cycle_counter", ms.performance_metrics is pm)


def wiring_unit(prop, through_simulation):
    @unit("%s/state-wiring/%s" % (prop, "RiscvSimulation" if through_simulation else "RiscvArchitecturalState"))
    def u():
        pen_d = sym_int("pen_d", 0)
        pen_i = sym_int("pen_i", 0)
        for mode in ("single_stage_pipeline", "five_stage_pipeline"):
            for (dk, dp, ip) in (("wb", "lru", "plru"), ("wt", "plru", "lru"), ("wb", "plru", "plru"), ("wt", "lru", "lru")):
                d = opts(True, 1, 2, 4, dk, dp, pen_d)
                i = opts(True, 2, 1, 2, "wb", ip, pen_i)
                if through_simulation:
                    st = RiscvSimulation(mode=mode, data_cache=d, instruction_cache=i).state
                else:
                    st = RiscvArchitecturalState(pipeline_mode=mode, data_cache_options=d, instruction_cache_options=i)
                if prop in ("C03", "C09"):
                    check("data_cache_kind", type(st.memory) is (WriteBackMemorySystem if dk == "wb" else WriteThroughMemorySystem))
                    check_cache("data_cache_", st.memory, d, st.performance_metrics)
                    check("data_cache_backing_is_the_flat_memory", type(st.memory.memory) is Memory and st.memory.memory.address_range.start == 2 ** 14)
                    # ... with the same parameters as the uncached data memory (C18's instantiation): wraps modulo 2**32
                    check("data_cache_backing_has_the_parameters_of_the_uncached_memory", st.memory.memory.address_overflow is True and st.memory.memory.address_length == 32
                          and st.memory.memory.address_range.stop == 2 ** 32 and st.memory.memory.memory_file_values_width == 8)
                if prop == "C10":
                    # a cache configured "lru" / "plru" really replaces by that policy: each cache gets the policy of ITS options
                    check("data_cache_replacement_policy", all_of([type(cs.replacement_strategy) is (LRU if dp == "lru" else PLRU) and cs.replacement_strategy.associativity == 4 for cs in st.memory.cache.sets]))
                    check("instruction_cache_replacement_policy", all_of([type(cs.replacement_strategy) is (LRU if ip == "lru" else PLRU) and cs.replacement_strategy.associativity == 2 for cs in st.instruction_memory.cache.sets]))
                if prop == "C11":
                    check("instruction_cache_kind", type(st.instruction_memory) is InstructionMemoryCacheSystem)
                    check_cache("instruction_cache_", st.instruction_memory, i, st.performance_metrics)
            # disabled caches: plain memories
            off = opts(False, 1, 1, 2, "wb", "lru", 5)
            st = RiscvArchitecturalState(pipeline_mode=mode, data_cache_options=off, instruction_cache_options=off)
            check("disabled_means_uncached", type(st.memory) is Memory and type(st.instruction_memory) is InstructionMemory)


for _p in ("C03", "C09", "C10", "C11"):
    wiring_unit(_p, False)
    wiring_unit(_p, True)


# ---- mode and hazard-detection flag reach the pipeline that is built (C02 / C07 / C08): the units of those properties
# construct RiscvArchitecturalState themselves; what a user configures on RiscvSimulation must arrive there
from architecture_simulator.uarch.riscv.stages import (SingleStage, InstructionFetchStage, InstructionDecodeStage, ExecuteStage,
                                                       MemoryAccessStage, RegisterWritebackStage)


def pipeline_wiring(prop):
    @unit("%s/state-wiring/mode-and-hazard-detection-flag" % prop)
    def u():
        for through in (True, False):
            for d in (True, False):
                st = RiscvSimulation(mode="five_stage_pipeline", detect_data_hazards=d).state if through else \
                    RiscvArchitecturalState(pipeline_mode="five_stage_pipeline", detect_data_hazards=d)
                ps = st.pipeline.stages
                check("five_stages_in_order", [type(x) for x in ps] == [InstructionFetchStage, InstructionDecodeStage, ExecuteStage, MemoryAccessStage, RegisterWritebackStage])
                check("decode_stage_gets_the_flag", ps[1].detect_data_hazards is d and ps[1].stages_until_writeback == 2)
                check("write_back_runs_before_decode_in_a_cycle", st.pipeline.execution_ordering.index(4) < st.pipeline.execution_ordering.index(1)
                      and sorted(st.pipeline.execution_ordering) == [0, 1, 2, 3, 4])
                check("five_pipeline_registers", len(st.pipeline.pipeline_registers) == 5)
            st = RiscvSimulation(mode="single_stage_pipeline").state if through else RiscvArchitecturalState(pipeline_mode="single_stage_pipeline")
            check("single_stage", [type(x) for x in st.pipeline.stages] == [SingleStage] and st.pipeline.execution_ordering == [0])
        # the flag belongs to the simulation it was given to: building another simulation with the opposite setting
        # (never stepped, sharing nothing) does not change it
        a = RiscvSimulation(mode="five_stage_pipeline", detect_data_hazards=True)
        b = RiscvSimulation(mode="five_stage_pipeline", detect_data_hazards=False)
        c = RiscvArchitecturalState(pipeline_mode="five_stage_pipeline", detect_data_hazards=True)
        check("flags_are_per_simulation", a.state.pipeline.stages[1].detect_data_hazards is True and b.state.pipeline.stages[1].detect_data_hazards is False
              and c.pipeline.stages[1].detect_data_hazards is True)
        check("stages_are_not_shared_between_simulations", a.state.pipeline.stages[1] is not b.state.pipeline.stages[1] and a.state.pipeline is not b.state.pipeline)
        # defaults: single-cycle mode, hazard detection on
        st = RiscvSimulation().state
        check("default_is_single_cycle", [type(x) for x in st.pipeline.stages] == [SingleStage])
        st = RiscvSimulation(mode="five_stage_pipeline").state
        check("hazard_detection_is_on_by_default", st.pipeline.stages[1].detect_data_hazards is True)
        st = RiscvArchitecturalState(pipeline_mode="five_stage_pipeline")
        check("hazard_detection_is_on_by_default_in_the_state", st.pipeline.stages[1].detect_data_hazards is True)


for _p in ("C02", "C07", "C08"):
    pipeline_wiring(_p)


# ---- the caches charge their penalties to the state's cycle counter -- also after a (re)load, whether or not the
# simulation has run before (C09 / C11: "every miss adds the configured penalty to the cycle counter", all histories)
def reload_wiring(prop):
    @unit("%s/state-wiring/penalties-reach-the-cycle-counter-after-a-reload" % prop)
    def u():
        from architecture_simulator.isa.riscv.riscv_parser import RiscvParser
        for mode in ("single_stage_pipeline", "five_stage_pipeline"):
            d = opts(True, 1, 0, 2, "wb", "lru", 3)
            i = opts(True, 1, 0, 2, "wb", "lru", 5)
            sim = RiscvSimulation(mode=mode, data_cache=d, instruction_cache=i)
            sim.has_started = sym_bool("has_started_" + mode)
            sim.state.performance_metrics.cycles = sym_int("cycles_" + mode, 0)

            def probe(self_, program, state, **kw):
                return None
            stub(RiscvParser, "parse", probe)
            sim.load_program("nop")
            unstub(RiscvParser, "parse")
            st = sim.state
            check("data_cache_charges_the_state's_counter", st.memory.performance_metrics is st.performance_metrics)
            check("instruction_cache_charges_the_state's_counter", st.instruction_memory.performance_metrics is st.performance_metrics)
            check("penalties_kept", st.memory.miss_penality == 3 and st.instruction_memory.miss_penality == 5)
        # ... and the caches a (re)load leaves behind are still the configured ones: load_program resets both memory
        # systems, and reset() rebuilds the cache -- kind, geometry, replacement policy, penalty as the options say
        for (dk, dp, ip) in (("wb", "plru", "lru"), ("wt", "lru", "plru")):
            d = opts(True, 1, 1, 4, dk, dp, 3)
            i = opts(True, 2, 0, 2, "wb", ip, 5)
            sim = RiscvSimulation(mode="single_stage_pipeline", data_cache=d, instruction_cache=i)
            stub(RiscvParser, "parse", lambda self_, program, state, **kw: None)
            sim.load_program("nop")
            unstub(RiscvParser, "parse")
            st = sim.state
            if prop == "C09":
                check("data_cache_kind_after_a_reload", type(st.memory) is (WriteBackMemorySystem if dk == "wb" else WriteThroughMemorySystem))
                check_cache("data_cache_after_a_reload_", st.memory, d, st.performance_metrics)
            else:
                check("instruction_cache_kind_after_a_reload", type(st.instruction_memory) is InstructionMemoryCacheSystem)
                check_cache("instruction_cache_after_a_reload_", st.instruction_memory, i, st.performance_metrics)


for _p in ("C09", "C11"):
    reload_wiring(_p)
