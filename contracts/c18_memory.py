"""C18 -- flat memory is a little-endian byte store with wrap-around and range checks.

Every unit runs the real Memory method on a memory whose content is arbitrary (sym_map, i.e. any
reachable or unreachable dict of cells) with an arbitrary integer address/value and compares with
the S-MEM view  cell(a) = memory_file.get(a, 0).  Because the pre-state is arbitrary and the
post-state is stated for every cell (skolem index k), the statement holds after any history.

Two instantiations, parameters read from the real Settings / constructors:
  riscv: Memory(BYTE, 32, overflow=True, range(2**14, 2**32))
  toy  : the memory built by ToyArchitecturalState() (HALF_WORD, 12 bits, no overflow, range(4096))
"""
from pyvc.api import *
from fixedint import UInt8, UInt16, UInt32, UInt64
from architecture_simulator.uarch.memory.memory import Memory, AddressingType, MemoryAddressError, UnsupportedFunctionError
from architecture_simulator.uarch.riscv.riscv_architectural_state import RiscvArchitecturalState
from architecture_simulator.uarch.toy.toy_architectural_state import ToyArchitecturalState


class Cfg:
    def __init__(self, name, mem, cell_t, cell_bits, lo, top, wrap):
        self.name = name
        self.mem = mem
        self.cell_t = cell_t
        self.cell_bits = cell_bits
        self.lo = lo
        self.top = top
        self.wrap = wrap


def riscv_cfg():
    m = RiscvArchitecturalState().memory            # the memory the simulator really builds
    check("cfg_is_flat_memory", type(m) is Memory)
    check("cfg_params", m.address_overflow is True and m.address_length == 32 and m.memory_file_values_width == 8
          and m.address_range.start == 2 ** 14 and m.address_range.stop == 2 ** 32)
    m.memory_file = sym_map("M", UInt8)
    return Cfg("riscv", m, UInt8, 8, 2 ** 14, 2 ** 32, True)


def toy_cfg():
    m = ToyArchitecturalState().memory
    check("cfg_is_flat_memory", type(m) is Memory)
    check("cfg_params", m.address_overflow is False and m.address_length == 12 and m.memory_file_values_width == 16
          and m.address_range.start == 0 and m.address_range.stop == 4096)
    m.memory_file = sym_map("M", UInt16)
    return Cfg("toy", m, UInt16, 16, 0, 4096, False)


def full_cfg():
    """byte memory over the whole 32-bit address space with wrap-around (the instantiation used for CSRs and by most of
    the repository's own tests): here the modulo-2**32 clause is observable for accesses straddling the top."""
    m = Memory(AddressingType.BYTE, 32, True)
    check("cfg_params", m.address_range.start == 0 and m.address_range.stop == 2 ** 32 and m.address_overflow is True)
    m.memory_file = sym_map("M", UInt8)
    return Cfg("full", m, UInt8, 8, 0, 2 ** 32, True)


def eff(c, a):
    """effective address of a cell access"""
    return a % c.top if c.wrap else a


def in_range(c, a):
    return (c.lo <= a) & (a < c.top)


def cell(c, a):
    return int(c.mem.memory_file.get(a, c.cell_t(0)))


def read_contract(c, n_cells, ftype, method):
    a = sym_int("a")
    before = snapshot(c.mem)
    ok = True
    expect = 0
    for i in range(n_cells):
        ok = ok & in_range(c, eff(c, a + i))
        expect = expect + cell(c, eff(c, a + i)) * (2 ** c.cell_bits) ** i
    try:
        r = method(c.mem, a)
    except MemoryAddressError as e:
        reach("raises")
        check("raises_only_if_touching_out_of_range", not ok)
        check_same("frame_on_error", before, snapshot(c.mem))
        return
    reach("normal")
    check("succeeds_only_if_all_in_range", ok)
    check("value_little_endian", int(r) == expect)
    check("result_type", type(r) is ftype)
    check_same("read_is_pure", before, snapshot(c.mem))


def write_contract(c, n_cells, vtype, method):
    a = sym_int("a")
    v = sym_fixed("v", vtype)
    k = sym_int("k")                       # skolem: an arbitrary cell address
    before_k = cell(c, k)
    present_k = k in c.mem.memory_file
    shape = snapshot(c.mem, ignore=("memory_file",))
    alive = True
    exp = before_k
    exp_present = present_k
    for i in range(n_cells):
        ai = eff(c, a + i)
        alive = alive & in_range(c, ai)
        hit = alive & (k == ai)
        exp = ite(hit, (int(v) // (2 ** c.cell_bits) ** i) % 2 ** c.cell_bits, exp)
        exp_present = exp_present | hit
    try:
        method(c.mem, a, v)
    except MemoryAddressError as e:
        reach("raises")
        check("raises_only_if_touching_out_of_range", not alive)
        # cells before the first out-of-range address have been written, nothing else changed;
        # in particular an access entirely outside the range changes nothing
        check("cells_after_error", cell(c, k) == exp)
        check("presence_after_error", (k in c.mem.memory_file) == exp_present)
        check_same("frame_on_error", shape, snapshot(c.mem, ignore=("memory_file",)))
        return
    reach("normal")
    check("succeeds_only_if_all_in_range", alive)
    check("cells_after_write", cell(c, k) == exp)
    check("presence_after_write", (k in c.mem.memory_file) == exp_present)
    check("stored_type", implies(k in c.mem.memory_file, type(c.mem.memory_file.get(k, c.cell_t(0))) is c.cell_t))
    check_same("frame", shape, snapshot(c.mem, ignore=("memory_file",)))


def unsupported_contract(c, call):
    before = snapshot(c.mem)
    try:
        call(c.mem)
    except UnsupportedFunctionError as e:
        reach("raises")
        check_same("frame_on_error", before, snapshot(c.mem))
        return
    check("must_raise_unsupported", False)


# ------------------------------------------------------------------ RISC-V instantiation
@unit("C18/Memory.read_byte/riscv", expect_reach=("normal", "raises"))
def r_rb():
    read_contract(riscv_cfg(), 1, UInt8, lambda m, a: m.read_byte(a))


@unit("C18/Memory.read_halfword/riscv", expect_reach=("normal", "raises"))
def r_rh():
    read_contract(riscv_cfg(), 2, UInt16, lambda m, a: m.read_halfword(a))


@unit("C18/Memory.read_word/riscv", expect_reach=("normal", "raises"))
def r_rw():
    read_contract(riscv_cfg(), 4, UInt32, lambda m, a: m.read_word(a))


@unit("C18/Memory.read_doubleword/riscv", expect_reach=("normal", "raises"))
def r_rd():
    read_contract(riscv_cfg(), 8, UInt64, lambda m, a: m.read_doubleword(a))


@unit("C18/Memory.write_byte/riscv", expect_reach=("normal", "raises"))
def r_wb():
    write_contract(riscv_cfg(), 1, UInt8, lambda m, a, v: m.write_byte(a, v))


@unit("C18/Memory.write_halfword/riscv", expect_reach=("normal", "raises"))
def r_wh():
    write_contract(riscv_cfg(), 2, UInt16, lambda m, a, v: m.write_halfword(a, v))


@unit("C18/Memory.write_word/riscv", expect_reach=("normal", "raises"))
def r_ww():
    write_contract(riscv_cfg(), 4, UInt32, lambda m, a, v: m.write_word(a, v))


@unit("C18/Memory.write_doubleword/riscv", expect_reach=("normal", "raises"), tier="thorough")
def r_wd():
    write_contract(riscv_cfg(), 8, UInt64, lambda m, a, v: m.write_doubleword(a, v))


@unit("C18/Memory.reset/riscv")
def r_reset():
    c = riscv_cfg()
    shape = snapshot(c.mem, ignore=("memory_file",))
    c.mem.reset()
    k = sym_int("k")
    check("all_cells_zero", cell(c, k) == 0)
    check("no_cell_present", not (k in c.mem.memory_file))
    check_same("frame", shape, snapshot(c.mem, ignore=("memory_file",)))


# ------------------------------------------------------------------ full-range instantiation (wrap-around observable)
@unit("C18/Memory.read_word/full-range", expect_reach=("normal",))
def f_rw():
    read_contract(full_cfg(), 4, UInt32, lambda m, a: m.read_word(a))


@unit("C18/Memory.read_halfword/full-range", expect_reach=("normal",))
def f_rh():
    read_contract(full_cfg(), 2, UInt16, lambda m, a: m.read_halfword(a))


@unit("C18/Memory.write_word/full-range", expect_reach=("normal",))
def f_ww():
    write_contract(full_cfg(), 4, UInt32, lambda m, a, v: m.write_word(a, v))


@unit("C18/Memory.write_halfword/full-range", expect_reach=("normal",))
def f_wh():
    write_contract(full_cfg(), 2, UInt16, lambda m, a, v: m.write_halfword(a, v))


@unit("C18/Memory.write_byte/full-range", expect_reach=("normal",))
def f_wb():
    write_contract(full_cfg(), 1, UInt8, lambda m, a, v: m.write_byte(a, v))


# ------------------------------------------------------------------ TOY instantiation
@unit("C18/Memory.read_halfword/toy", expect_reach=("normal", "raises"))
def t_rh():
    read_contract(toy_cfg(), 1, UInt16, lambda m, a: m.read_halfword(a))


@unit("C18/Memory.read_word/toy", expect_reach=("normal", "raises"))
def t_rw():
    read_contract(toy_cfg(), 2, UInt32, lambda m, a: m.read_word(a))


@unit("C18/Memory.write_halfword/toy", expect_reach=("normal", "raises"))
def t_wh():
    write_contract(toy_cfg(), 1, UInt16, lambda m, a, v: m.write_halfword(a, v))


@unit("C18/Memory.write_word/toy", expect_reach=("normal", "raises"))
def t_ww():
    write_contract(toy_cfg(), 2, UInt32, lambda m, a, v: m.write_word(a, v))


@unit("C18/Memory.read_byte/toy-unsupported", expect_reach=("raises",))
def t_rb():
    unsupported_contract(toy_cfg(), lambda m: m.read_byte(sym_int("a")))


@unit("C18/Memory.write_byte/toy-unsupported", expect_reach=("raises",))
def t_wb():
    unsupported_contract(toy_cfg(), lambda m: m.write_byte(sym_int("a"), sym_fixed("v", UInt8)))


# ------------------------------------------------------------------ canaries (must be refuted)
@unit("C18/canary/big-endian-read", canary=True)
def canary_big_endian():
    c = riscv_cfg()
    a = sym_int("a", 2 ** 14, 2 ** 20)
    r = c.mem.read_halfword(a)
    check("value_big_endian", int(r) == cell(c, a) * 256 + cell(c, a + 1))


@unit("C18/canary/write-ignores-range", canary=True)
def canary_write_range():
    c = riscv_cfg()
    a = sym_int("a")
    c.mem.write_byte(a, sym_fixed("v", UInt8))   # must be able to raise: noexc is refuted


@unit("C18/toy/explicitly-sized-memory")
def toy_sized():
    """a TOY memory whose size is given explicitly has exactly that many addresses (4096 for the documented machine), is
    halfword-addressed and does not wrap"""
    from architecture_simulator.simulation.toy_simulation import ToySimulation
    size = [4096, 64, 1000, 5000][split(sym_int("which_size", 0, 3))]
    for m in (ToyArchitecturalState(unified_memory_size=size).memory, ToySimulation(unified_memory_size=size).state.memory):
        check("is_flat_memory", type(m) is Memory)
        check("address_range", m.address_range.start == 0 and m.address_range.stop == size and m.address_range.step == 1)
        check("halfword_cells_no_wrap", m.address_overflow is False and m.memory_file_values_width == 16)
        v = sym_fixed("v", UInt16)
        m.write_halfword(size - 1, v)
        check("last_address_is_usable", int(m.read_halfword(size - 1)) == int(v))
        try:
            m.write_halfword(size, v)
            check("first_address_behind_the_end_is_rejected", False)
        except MemoryAddressError as e:
            check("first_address_behind_the_end_is_rejected", True)
