"""C18 -- flat memory is a little-endian byte store with wrap-around and range checks.

Units run the real Memory methods on a memory whose content is arbitrary (sym_map) and compare
with the S-MEM view: cell(a) = memory_file.get(a, 0).
"""
from pyvc.api import *
from fixedint import UInt8, UInt16, UInt32, UInt64
from architecture_simulator.uarch.memory.memory import Memory, AddressingType, MemoryAddressError, UnsupportedFunctionError
from architecture_simulator.settings.settings import Settings

LO = Settings().get()["memory_address_min_bytes"]
ALEN = Settings().get()["memory_address_length"]
TOP = 2 ** ALEN


def riscv_memory():
    m = Memory(AddressingType.BYTE, ALEN, True, range(LO, TOP))
    m.memory_file = sym_map("M", UInt8)
    return m


def cell(m, a):
    return int(m.memory_file.get(a, UInt8(0)))


def in_range(a):
    return LO <= a and a < TOP


def read_contract(width_bytes, ftype, method):
    m = riscv_memory()
    a = sym_int("a")
    before = snapshot(m)
    expect = 0
    ok = True
    for i in range(width_bytes):
        ok = ok and in_range((a + i) % TOP)
    for i in range(width_bytes):
        expect = expect + cell(m, (a + i) % TOP) * 256 ** i
    try:
        r = method(m, a)
    except MemoryAddressError as e:
        reach("raises")
        check("raises_only_if_out_of_range", not ok)
        check_same("frame_on_error", before, snapshot(m))
        return
    reach("normal")
    check("no_error_only_if_in_range", ok)
    check("value", int(r) == expect)
    check("type", type(r) is ftype)
    check_same("read_is_pure", before, snapshot(m))


@unit("C18/Memory.read_byte/riscv")
def read_byte_riscv():
    read_contract(1, UInt8, lambda m, a: m.read_byte(a))


@unit("C18/Memory.read_halfword/riscv")
def read_halfword_riscv():
    read_contract(2, UInt16, lambda m, a: m.read_halfword(a))


@unit("C18/Memory.read_word/riscv")
def read_word_riscv():
    read_contract(4, UInt32, lambda m, a: m.read_word(a))
