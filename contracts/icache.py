"""C11 -- instruction cache: transparency, fetch accounting, reset.

Per configuration: ANY well-formed instruction-cache state over a program of K instructions at arbitrary
(4-aligned, distinct) addresses.  wf: every valid block's slot i holds the very instruction object stored at
base+4i in the instruction memory, or an EmptyInstruction if there is none -- under the ghost fact that the
instruction memory has not changed since the last reset() (write_instruction(s) are only called by the parser,
right after load_program's reset(); proved as a call-sequence obligation in C13).
"""
from pyvc.api import *
from architecture_simulator.uarch.memory.instruction_memory_cache_system import InstructionMemoryCacheSystem
from architecture_simulator.uarch.memory.instruction_memory import InstructionMemory
from architecture_simulator.uarch.memory.decoded_address import DecodedAddress
from architecture_simulator.uarch.memory.replacement_strategies import LRU, PLRU
from architecture_simulator.uarch.riscv.riscv_performance_metrics import RiscvPerformanceMetrics
from architecture_simulator.isa.riscv.instruction_types import EmptyInstruction
from architecture_simulator.isa.riscv.rv32i_instructions import ADDI
from architecture_simulator.settings.settings import Settings

IMEM_TOP = Settings().get()["instruction_memory_max_bytes"]
QUICK = [(0, 0, 1), (1, 0, 1), (0, 1, 1), (0, 0, 2)]
THOROUGH = [(1, 1, 1), (1, 0, 2), (0, 1, 2)]
K = 2


class G:
    def __init__(self, ib, bb, assoc, pol):
        self.ib = ib
        self.bb = bb
        self.assoc = assoc
        self.pol = pol
        self.nsets = 2 ** ib
        self.nwords = 2 ** bb
        self.tagmax = IMEM_TOP // 2 ** (ib + bb + 2) - 1
        self.name = "ib=%d,bb=%d,a=%d,%s" % (ib, bb, assoc, pol)


class A:
    def __init__(self, g, tag, st, bo):
        self.tag = tag
        self.set = st
        self.bo = bo
        self.addr = tag * 2 ** (g.ib + g.bb + 2) + st * 2 ** (g.bb + 2) + bo * 4

    def base(self, g):
        return self.tag * 2 ** (g.ib + g.bb + 2) + self.set * 2 ** (g.bb + 2)


def sym_addr(g, name, set_concrete=None):
    tag = sym_int(name + "_tag", 0, g.tagmax)
    st = set_concrete if set_concrete is not None else (split(sym_int(name + "_set", 0, g.nsets - 1)) if g.ib > 0 else 0)
    bo = split(sym_int(name + "_bo", 0, g.nwords - 1)) if g.bb > 0 else 0
    return A(g, tag, st, bo)


def stored_at(prog, addr):
    """the instruction object of the program stored at addr, or None (forks over the program entries)"""
    for (pa, ins) in prog:
        if pa.addr == addr:
            return ins
    return None


def build(g):
    pm = RiscvPerformanceMetrics()
    pm.cycles = sym_int("cycles", 0)
    imem = InstructionMemory()
    prog = []
    for j in range(K):
        pa = sym_addr(g, "p%d" % j)
        for (qa, _) in prog:
            assume(qa.addr != pa.addr)
        ins = ADDI(j + 1, 0, j)
        imem.instructions[pa.addr] = ins
        prog.append((pa, ins))
    ic = InstructionMemoryCacheSystem(instruction_memory=imem, num_index_bits=g.ib, num_block_bits=g.bb, associativity=g.assoc,
                                      performance_metrics=pm, miss_penality=sym_int("penalty", 0), replacement_strategy=g.pol)
    ic.hits = sym_int("hits", 0)
    ic.accesses = sym_int("accesses", 0)
    ic.last_was_hit = sym_bool("last_hit")
    for s in range(g.nsets):
        cs = ic.cache.sets[s]
        tags = []
        for w in range(g.assoc):
            b = cs.blocks[w]
            if sym_bool("v_%d_%d" % (s, w)):
                tag = sym_int("tag_%d_%d" % (s, w), 0, g.tagmax)
                for t in tags:
                    assume(t != tag)
                tags.append(tag)
                ba = A(g, tag, s, 0)
                b.valid_bit = True
                b.dirty_bit = True
                b.decoded_address = DecodedAddress(g.ib, g.bb, ba.addr + 4 * (sym_int("fill_bo_%d_%d" % (s, w), 0, g.nwords - 1) if g.bb > 0 else 0))
                vals = []
                for i in range(g.nwords):
                    ins = stored_at(prog, ba.addr + 4 * i)
                    vals.append(ins if ins is not None else EmptyInstruction())
                b.values = vals
        pol = cs.replacement_strategy
        if g.pol == "lru":
            perm = [sym_int("lru_%d_%d" % (s, j), 0, g.assoc - 1) for j in range(g.assoc)]
            for a in range(g.assoc):
                for b_ in range(a + 1, g.assoc):
                    assume(perm[a] != perm[b_])
            pol.lru = perm
        else:
            pol.tree_array = [sym_bool("plru_%d_%d" % (s, j)) for j in range(g.assoc - 1)]
    return ic, imem, prog


def wf(g, ic, prog):
    ok = len(ic.cache.sets) == g.nsets
    for s1 in range(g.nsets):
        for s2 in range(s1 + 1, g.nsets):
            ok = ok & (ic.cache.sets[s1].replacement_strategy is not ic.cache.sets[s2].replacement_strategy) & (ic.cache.sets[s1].blocks is not ic.cache.sets[s2].blocks)
    for s in range(g.nsets):
        cs = ic.cache.sets[s]
        ok = ok & (len(cs.blocks) == g.assoc)
        for w in range(g.assoc):
            b = cs.blocks[w]
            if b.valid_bit:
                da = b.decoded_address
                ok = ok & (da.cache_set_index == s) & (len(b.values) == g.nwords)
                for i in range(g.nwords):
                    if len(b.values) == g.nwords:
                        ins = stored_at(prog, da.block_alinged_address + 4 * i)
                        if ins is not None:
                            ok = ok & (b.values[i] is ins)
                        else:
                            ok = ok & (type(b.values[i]) is EmptyInstruction)
                for w2 in range(w + 1, g.assoc):
                    b2 = cs.blocks[w2]
                    if b2.valid_bit:
                        ok = ok & (b2.decoded_address.tag != da.tag)
        pol = cs.replacement_strategy
        if g.pol == "lru":
            ok = ok & (len(pol.lru) == g.assoc)
            for a in range(g.assoc):
                ok = ok & (0 <= pol.lru[a]) & (pol.lru[a] < g.assoc)
                for b_ in range(a + 1, g.assoc):
                    ok = ok & (pol.lru[a] != pol.lru[b_])
        else:
            ok = ok & (len(pol.tree_array) == g.assoc - 1)
    return ok


def resident(g, ic, a):
    r = False
    if type(a.set) is int:
        for w in range(g.assoc):
            b = ic.cache.sets[a.set].blocks[w]
            if b.valid_bit:
                r = r | (b.decoded_address.tag == a.tag)
    return r


def policy_twin(g, pol):
    t = LRU(g.assoc) if g.pol == "lru" else PLRU(g.assoc)
    if g.pol == "lru":
        t.lru = list(pol.lru)
    else:
        t.tree_array = list(pol.tree_array)
    return t


def fetch_unit(g):
    ic, imem, prog = build(g)
    j = split(sym_int("which", 0, K - 1))
    a, want = prog[j]
    c0 = (ic.hits, ic.accesses, ic.last_was_hit, ic.performance_metrics.cycles)
    was = resident(g, ic, a)
    cs = ic.cache.sets[a.set]
    valid0 = [cs.blocks[w].valid_bit for w in range(g.assoc)]
    tag0 = [cs.blocks[w].decoded_address.tag for w in range(g.assoc)]
    twin = policy_twin(g, cs.replacement_strategy)
    victim = twin.get_next_to_replace()
    other = snapshot([ic.cache.sets[s] for s in range(g.nsets) if s != a.set], imem)
    r = ic.read_instruction(a.addr)
    reach("fetched")
    check("returns_the_stored_instruction", r is want)
    check("same_as_uncached_memory", r is imem.read_instruction(a.addr))
    check("wf_preserved", wf(g, ic, prog))
    check("hit_iff_resident", ic.last_was_hit == was)
    check("access_counter_counts_every_fetch", ic.accesses == c0[1] + 1)
    check("hit_counter", ic.hits == c0[0] + ite(was, 1, 0))
    check("miss_penalty_cycles", ic.performance_metrics.cycles == c0[3] + ite(was, 0, ic.miss_penality))
    # residency / policy against the reference: hit -> touch the hit way; miss -> fill the policy's victim, touch it
    hit_way = 0
    for w in range(g.assoc):
        if valid0[w]:
            hit_way = ite(tag0[w] == a.tag, w, hit_way)
    way = ite(was, hit_way, victim)
    twin.access(way)
    ok = True
    for w in range(g.assoc):
        b = cs.blocks[w]
        filled = (not was) & (way == w)
        ok = ok & (b.valid_bit == (valid0[w] | filled)) & implies(b.valid_bit, b.decoded_address.tag == ite(filled, a.tag, tag0[w]))
    if g.pol == "lru":
        ok = ok & all_of([cs.replacement_strategy.lru[i] == twin.lru[i] for i in range(g.assoc)])
    else:
        ok = ok & all_of([cs.replacement_strategy.tree_array[i] == twin.tree_array[i] for i in range(g.assoc - 1)])
    check("residency_and_policy_match_reference", ok)
    check_same("other_sets_and_instruction_memory_untouched", other,
               snapshot([ic.cache.sets[s] for s in range(g.nsets) if s != a.set], imem))


def reset_unit(g):
    ic, imem, prog = build(g)
    ic.reset()
    check("no_valid_block", all_of([not ic.cache.sets[s].blocks[w].valid_bit for s in range(g.nsets) for w in range(g.assoc)]))
    check("counters_zero", ic.hits == 0 and ic.accesses == 0 and ic.last_was_hit is False)
    check("instruction_memory_empty", ic.has_instructions() is False and len(imem.instructions) == 0)
    check("wf", wf(g, ic, []))
    check("geometry_kept", ic.cache.num_index_bits == g.ib and ic.cache.num_block_bits == g.bb and len(ic.cache.sets[0].blocks) == g.assoc
          and type(ic.cache.sets[0].replacement_strategy) is (LRU if g.pol == "lru" else PLRU))


def passthrough_unit(g):
    ic, imem, prog = build(g)
    x = sym_int("x")
    before = snapshot(ic)
    check("instruction_at_address", ic.instruction_at_address(x) == imem.instruction_at_address(x))
    check("has_instructions", ic.has_instructions() == imem.has_instructions())
    check("address_range", ic.get_address_range() == imem.get_address_range())
    check_same("queries_are_pure", before, snapshot(ic))


def constructor_unit(g):
    pm = RiscvPerformanceMetrics()
    imem = InstructionMemory()
    ic = InstructionMemoryCacheSystem(instruction_memory=imem, num_index_bits=g.ib, num_block_bits=g.bb, associativity=g.assoc,
                                      performance_metrics=pm, miss_penality=sym_int("penalty", 0), replacement_strategy=g.pol)
    check("wf_established", wf(g, ic, []))
    check("no_valid_block", all_of([not ic.cache.sets[s].blocks[w].valid_bit for s in range(g.nsets) for w in range(g.assoc)]))
    check("counters_zero", ic.hits == 0 and ic.accesses == 0 and ic.last_was_hit is False)


def register(g, tier):
    @unit("C11/ICache.read_instruction/" + g.name, tier=tier, expect_reach=("fetched",))
    def u1():
        fetch_unit(g)

    @unit("C11/ICache.reset/" + g.name, tier=tier)
    def u2():
        reset_unit(g)

    @unit("C11/ICache.passthrough/" + g.name, tier=tier)
    def u3():
        passthrough_unit(g)

    @unit("C11/ICache.__init__/" + g.name, tier=tier)
    def u4():
        constructor_unit(g)


for (_ib, _bb, _a) in QUICK:
    for _p in ("lru", "plru"):
        if _p == "plru" and (_a & (_a - 1)) != 0:
            continue
        register(G(_ib, _bb, _a, _p), "quick")
for (_ib, _bb, _a) in THOROUGH:
    for _p in ("lru", "plru"):
        register(G(_ib, _bb, _a, _p), "thorough")


@unit("C11/canary/block-offset-ignored", canary=True)
def canary_bo():
    g = G(0, 1, 1, "lru")
    ic, imem, prog = build(g)
    a, want = prog[0]
    r = ic.read_instruction(a.addr)
    check("always_first_slot", r is ic.cache.sets[0].blocks[0].values[0])


# ------------------------------------------------------------------ fetch count (one fetch per executed instruction)
from contracts.rvcommon import havoc_state, build as build_instr, place
from architecture_simulator.uarch.riscv.stages import InstructionFetchStage, SingleStage
from architecture_simulator.uarch.riscv.pipeline_registers import InstructionFetchPipelineRegister


class CountingIMem(InstructionMemory):
    """the real instruction memory, counting calls of read_instruction (ghost counter)"""

    def read_instruction(self, address):
        self.reads = self.reads + 1
        return super().read_instruction(address)


def counting_state(mode):
    st, regs0 = havoc_state(mode)
    im = CountingIMem()
    im.reads = 0
    st.instruction_memory = im
    return st


@unit("C11/fetch-count/single-stage", expect_reach=("executed", "nothing-at-pc"))
def fetch_count_single():
    st = counting_state("single_stage_pipeline")
    ins, rd, rs1, rs2, imm = build_instr("addi")
    a = sym_int("a", 0, IMEM_TOP - 4)
    st.instruction_memory.instructions = {a: ins}
    st.program_counter = sym_int("pc", 0, IMEM_TOP - 4)
    present = st.program_counter == a
    st.pipeline.step()
    if present:
        reach("executed")
        check("exactly_one_fetch_per_executed_instruction", st.instruction_memory.reads == 1)
    else:
        reach("nothing-at-pc")
        check("no_fetch_without_instruction", st.instruction_memory.reads == 0)


@unit("C11/fetch-count/five-stage-IF", expect_reach=("fetched", "nothing-at-pc"))
def fetch_count_if():
    st = counting_state("five_stage_pipeline")
    ins, rd, rs1, rs2, imm = build_instr("addi")
    a = sym_int("a", 0, IMEM_TOP - 4)
    st.instruction_memory.instructions = {a: ins}
    st.program_counter = sym_int("pc", 0, IMEM_TOP - 4)
    pc0 = st.program_counter
    present = pc0 == a
    pr = InstructionFetchStage().behavior(st.pipeline.pipeline_registers, -1, st)
    if present:
        reach("fetched")
        check("exactly_one_fetch", st.instruction_memory.reads == 1)
        check("latch_holds_the_fetched_instruction", pr.instruction is ins and pr.address_of_instruction == pc0
              and pr.pc_plus_instruction_length == pc0 + 4)
        check("pc_advanced", st.program_counter == pc0 + 4)
    else:
        reach("nothing-at-pc")
        check("no_fetch_without_instruction", st.instruction_memory.reads == 0)
        check("bubble", type(pr) is InstructionFetchPipelineRegister and type(pr.instruction) is EmptyInstruction)
        check("pc_unchanged", st.program_counter == pc0)
