"""C15, run-time half: every failure of a loaded program is an InstructionExecutionException carrying the address and
the printed form of the instruction that failed, in both modes (the single-instruction units of C01/C02 with their
fault clauses, re-registered here for the faulting classes), plus the front end's three-way classification."""
from pyvc.api import *
from contracts.c01_single import run_and_compare
from contracts.c02_pipeline import single_instruction
from contracts.rvcommon import *
from spec import rv32im as S


def fault_single(mn):
    @unit("C15/single-cycle/fault-report/" + mn, expect_reach=("fault",))
    def u():
        st, regs0 = havoc_state()
        ins, rd, rs1, rs2, imm = build(mn)
        pc = sym_int("pc", 0, IMEM_TOP - 4)
        place(st, ins, pc)
        e = S.step(mn, rd, rs1, rs2, imm, lambda i: int(regs0[i]), lambda a: byte_at(st.memory, a), pc, LO)
        run_and_compare(st, regs0, ins, pc, e)


def fault_five(mn):
    @unit("C15/five-stage/fault-report/" + mn, expect_reach=("fault",))
    def u():
        single_instruction(mn)


for _mn in ("lb", "lh", "lw", "lbu", "lhu", "sb", "sh", "sw"):
    fault_single(_mn)
    fault_five(_mn)


@unit("C15/single-cycle/fault-report/invalid-ecall", expect_reach=("fault",))
def ecall_single():
    st, regs0 = havoc_state()
    ins, _, _, _, _ = build("ecall")
    pc = sym_int("pc", 0, IMEM_TOP - 4)
    place(st, ins, pc)
    assume(not S.ecall_is_valid(int(regs0[17])))
    e = S.Effect()
    e.fault = True
    run_and_compare(st, regs0, ins, pc, e)


@unit("C15/unimplemented-instructions-fault-with-address")
def unimplemented():
    from architecture_simulator.isa.riscv.rv32i_instructions import EBREAK, FENCE
    from architecture_simulator.simulation.riscv_simulation import RiscvSimulation
    from architecture_simulator.simulation.runtime_errors import InstructionExecutionException
    for cls in (EBREAK, FENCE):
        st, regs0 = havoc_state()
        ins = cls()
        pc = sym_int("pc", 0, IMEM_TOP - 4)
        place(st, ins, pc)
        try:
            RiscvSimulation(state=st).step()
        except InstructionExecutionException as ex:
            check("address_" + cls.__name__, ex.address == pc)
            check("printed_form_" + cls.__name__, ex.instruction_repr == repr(ins))
            continue
        check("must_fault_" + cls.__name__, False)
