"""C15, run-time half: every failure of a loaded program is an InstructionExecutionException carrying the address and
the printed form of the instruction that failed, in both modes (the single-instruction units of C01/C02 with their
fault clauses, re-registered here for the faulting classes), plus the front end's three-way classification."""
from pyvc.api import *
from contracts.c01_single import run_and_compare
from contracts.c02_pipeline import single_instruction
from contracts.rvcommon import *
from spec import rv32im as S


def fault_single(mn):
    @unit("C15/single-cycle/fault-report/" + mn, expect_reach=("fault",))
    def u():
        st, regs0 = havoc_state()
        ins, rd, rs1, rs2, imm = build(mn)
        pc = sym_int("pc", 0, IMEM_TOP - 4)
        place(st, ins, pc)
        e = S.step(mn, rd, rs1, rs2, imm, lambda i: int(regs0[i]), lambda a: byte_at(st.memory, a), pc, LO)
        run_and_compare(st, regs0, ins, pc, e)


def fault_five(mn):
    @unit("C15/five-stage/fault-report/" + mn, expect_reach=("fault",))
    def u():
        single_instruction(mn)


for _mn in ("lb", "lh", "lw", "lbu", "lhu", "sb", "sh", "sw"):
    fault_single(_mn)
    fault_five(_mn)


@unit("C15/single-cycle/fault-report/invalid-ecall", expect_reach=("fault",))
def ecall_single():
    st, regs0 = havoc_state()
    ins, _, _, _, _ = build("ecall")
    pc = sym_int("pc", 0, IMEM_TOP - 4)
    place(st, ins, pc)
    assume(not S.ecall_is_valid(int(regs0[17])))
    e = S.Effect()
    e.fault = True
    run_and_compare(st, regs0, ins, pc, e)


@unit("C15/unimplemented-instructions-fault-with-address")
def unimplemented():
    from architecture_simulator.isa.riscv.rv32i_instructions import EBREAK, FENCE
    from architecture_simulator.simulation.riscv_simulation import RiscvSimulation
    from architecture_simulator.simulation.runtime_errors import InstructionExecutionException
    for cls in (EBREAK, FENCE):
        st, regs0 = havoc_state()
        ins = cls()
        pc = sym_int("pc", 0, IMEM_TOP - 4)
        place(st, ins, pc)
        try:
            RiscvSimulation(state=st).step()
        except InstructionExecutionException as ex:
            check("address_" + cls.__name__, ex.address == pc)
            check("printed_form_" + cls.__name__, ex.instruction_repr == repr(ins))
            continue
        check("must_fault_" + cls.__name__, False)


@unit("C15/five-stage/fault-report/invalid-ecall-held-behind-older-instruction", expect_reach=("fault",))
def ecall_fault_under_stall():
    """the ecall is first held in EX (an older instruction is still in flight) and fails on its stalled re-execution:
    the error must still name the ecall, not whatever was re-decoded behind it"""
    from architecture_simulator.simulation.riscv_simulation import RiscvSimulation
    from architecture_simulator.simulation.runtime_errors import InstructionExecutionException
    from architecture_simulator.isa.riscv.rv32i_instructions import ADD, ADDI, ECALL, LW
    from contracts.c02_pipeline import load, R
    for older in (1, 2):
        st, regs0 = havoc_state("five_stage_pipeline")
        assume(not S.ecall_is_valid(int(regs0[17])))
        prog = [ADD(sym_int("p_rd", 0, 4), R("p_rs1"), R("p_rs2"))]
        if older == 2:
            prog.append(ADDI(5, 6, 1))
        prog = prog + [ECALL(), ADDI(7, 7, 1), ADDI(8, 8, 1)]
        load(st, prog)
        sim = RiscvSimulation(state=st)
        try:
            for _ in range(12):
                sim.step()
        except InstructionExecutionException as ex:
            reach("fault")
            check("names_the_ecall_address_%d" % older, ex.address == 4 * older)
            check("names_the_ecall_text_%d" % older, ex.instruction_repr == "ecall")
            check("older_instruction_completed_%d" % older, st.performance_metrics.instruction_count == sym_int("icount", 0) + older)
            check("younger_had_no_effect_%d" % older, int(st.register_file.registers[7]) == int(regs0[7]) and int(st.register_file.registers[8]) == int(regs0[8]))
            continue
        check("must_fault_%d" % older, False)


# ---- with a data cache a load/store that crosses a word boundary is a run-time fault of its own kind (ByteOffsetError
# from the cache system): it must be reported like every other one
WIDTH = {"lh": 2, "lhu": 2, "lw": 4, "sh": 2, "sw": 4}


def crossing_effect(mn, st, regs0, pc):
    rd, rs1, rs2 = sym_int("rd", 0, 31), sym_int("rs1", 0, 31), sym_int("rs2", 0, 31)
    imm = sym_int("imm", -2 ** 40, 2 ** 40)
    e = S.step(mn, rd, rs1, rs2, imm, lambda i: int(regs0[i]), lambda a: byte_at(st.memory, a), pc, LO)
    a = S.u32(int(regs0[rs1]) + S.sext(imm, 12))
    e.fault = e.fault | (a % 4 + WIDTH[mn] > 4)
    return e


def cached_fault_single(mn):
    @unit("C15/single-cycle/fault-report/with-data-cache/" + mn, expect_reach=("fault", "normal"))
    def u():
        st, regs0 = havoc_state()
        st.memory = word_contained_memory(st)
        ins, rd, rs1, rs2, imm = build(mn)
        pc = sym_int("pc", 0, IMEM_TOP - 4)
        place(st, ins, pc)
        run_and_compare(st, regs0, ins, pc, crossing_effect(mn, st, regs0, pc))


def cached_fault_five(mn):
    @unit("C15/five-stage/fault-report/with-data-cache/" + mn, expect_reach=("fault", "normal"))
    def u():
        def prep(st, regs0):
            st.memory = word_contained_memory(st)
        single_instruction(mn, e_builder=lambda st, regs0, pc: crossing_effect(mn, st, regs0, pc), prepare=prep)


for _mn in ("lh", "lw", "sh", "sw"):
    cached_fault_single(_mn)
    cached_fault_five(_mn)


@unit("C15/run-time-errors-are-printable")
def printable():
    """the wrappers put repr(error) into the report: every run-time error class prints, whatever its fields hold"""
    from architecture_simulator.util.integer_manipulation import ByteOffsetError
    from architecture_simulator.uarch.memory.memory import MemoryAddressError, UnsupportedFunctionError
    from architecture_simulator.simulation.runtime_errors import InstructionExecutionException, StepSequenceError
    a, b, c = sym_int("a", 0), sym_int("b", 0), sym_int("c", 0)
    r = ByteOffsetError(a, b).__repr__()
    check("ByteOffsetError", type(r) is str)
    r = MemoryAddressError(address=a, min_address_incl=b, max_address_incl=c, memory_type="data memory").__repr__()
    check("MemoryAddressError", type(r) is str)
    r = UnsupportedFunctionError("byte-wise addressing", "half_word").__repr__()
    check("UnsupportedFunctionError", type(r) is str)
    r = InstructionExecutionException(address=a, instruction_repr="lw x1, 0(x2)", error_message="boom").__repr__()
    check("InstructionExecutionException", type(r) is str)
    r = StepSequenceError("first before second").__repr__()
    check("StepSequenceError", type(r) is str)


@unit("C15/assembler-errors-carry-line-and-print")
def parser_errors_printable():
    """every assembler error class keeps the line number and text it is given and prints a message that names the line"""
    from architecture_simulator.isa import parser_exceptions as PE
    n = [1, 57, 1204][split(sym_int("which_line", 0, 2))]
    two = [PE.ParserSyntaxException, PE.ParserOddImmediateException, PE.ParserDirectiveException, PE.ParserDataSyntaxException]
    for cls in two:
        e = cls(n, "the line")
        check(cls.__name__ + "_fields", e.line_number == n and e.line == "the line")
        check(cls.__name__ + "_prints_the_line_number", str(n) in e.__repr__())
    three = [(PE.ParserLabelException, "label"), (PE.DuplicateLabelException, "label"), (PE.ParserDataDuplicateException, "name"), (PE.ParserVariableException, "name")]
    for cls, f in three:
        e = cls(n, "the line", "foo")
        check(cls.__name__ + "_fields", e.line_number == n and e.line == "the line" and getattr(e, f) == "foo")
        r = e.__repr__()
        check(cls.__name__ + "_prints_the_line_number_and_the_name", str(n) in r and "foo" in r)
        e2 = cls(line_number=n, line="the line", **{f: "foo"})
        check(cls.__name__ + "_keywords", e2.line_number == n and e2.line == "the line" and getattr(e2, f) == "foo")
    m = PE.MemorySizeException(sym_int("words", 0))
    check("MemorySizeException_prints", type(m.__repr__()) is str)


# ---- C14: "error messages" print the instruction so that the text re-assembles to the instruction at the reported
# address: the fault report carries repr() of exactly the faulting instruction (in both modes)
def c14_fault(mn):
    @unit("C14/fault-report-prints-the-faulting-instruction/single-cycle/" + mn, expect_reach=("fault",))
    def a():
        st, regs0 = havoc_state()
        ins, rd, rs1, rs2, imm = build(mn)
        pc = sym_int("pc", 0, IMEM_TOP - 4)
        place(st, ins, pc)
        e = S.step(mn, rd, rs1, rs2, imm, lambda i: int(regs0[i]), lambda a_: byte_at(st.memory, a_), pc, LO)
        run_and_compare(st, regs0, ins, pc, e)

    @unit("C14/fault-report-prints-the-faulting-instruction/five-stage/" + mn, expect_reach=("fault",))
    def b():
        single_instruction(mn)


for _mn in ("lw", "lb", "sw", "sh"):
    c14_fault(_mn)
