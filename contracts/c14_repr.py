"""C14, printing half: every __repr__ prints the canonical text of its fields (operation, register numbers,
immediate in decimal with sign, imm(xN) order for loads/stores, absolute address for JAL, hex CSR number).
Structural string equality over symbolic fields.  The parsing half is the grammar: bounded (bounded/c14)."""
from pyvc.api import *
from architecture_simulator.isa.riscv.rv32i_instructions import instruction_map, ECALL, EBREAK
from architecture_simulator.isa.riscv import instruction_types as T
from architecture_simulator.uarch.memory.instruction_memory import InstructionMemory
from spec import rv32im as S


def X(n):
    return "x" + str(n)


def repr_unit(mn):
    cls = instruction_map[mn]

    @unit("C14/__repr__/" + mn)
    def u():
        rd, rs1, rs2 = sym_int("rd", 0, 31), sym_int("rs1", 0, 31), sym_int("rs2", 0, 31)
        imm = sym_int("imm", -2 ** 40, 2 ** 40)
        if issubclass(cls, T.RTypeInstruction):
            check("text", repr(cls(rd=rd, rs1=rs1, rs2=rs2)) == mn + " " + X(rd) + ", " + X(rs1) + ", " + X(rs2))
        elif mn in ("ecall", "ebreak"):
            check("text", repr(cls()) == mn)
        elif issubclass(cls, T.ShiftITypeInstruction):
            check("text", repr(cls(rd=rd, rs1=rs1, imm=imm)) == mn + " " + X(rd) + ", " + X(rs1) + ", " + str(imm % 32))
        elif issubclass(cls, T.MemoryITypeInstruction):
            check("text", repr(cls(rd=rd, rs1=rs1, imm=imm)) == mn + " " + X(rd) + ", " + str(S.sext(imm, 12)) + "(" + X(rs1) + ")")
        elif issubclass(cls, T.ITypeInstruction):
            check("text", repr(cls(rd=rd, rs1=rs1, imm=imm)) == mn + " " + X(rd) + ", " + X(rs1) + ", " + str(S.sext(imm, 12)))
        elif issubclass(cls, T.STypeInstruction):
            check("text", repr(cls(rs1=rs1, rs2=rs2, imm=imm)) == mn + " " + X(rs2) + ", " + str(S.sext(imm, 12)) + "(" + X(rs1) + ")")
        elif issubclass(cls, T.BTypeInstruction):
            check("text", repr(cls(rs1=rs1, rs2=rs2, imm=imm)) == mn + " " + X(rs1) + ", " + X(rs2) + ", " + str(S.sext(imm, 13)))
        elif issubclass(cls, T.UTypeInstruction):
            check("text", repr(cls(rd=rd, imm=imm)) == mn + " " + X(rd) + ", " + str(S.sext(imm, 20)))
        elif issubclass(cls, T.JTypeInstruction):
            a = sym_int("abs", 0)
            check("text_prints_the_absolute_target", repr(cls(rd=rd, imm=imm, abs_addr=a)) == mn + " " + X(rd) + ", " + str(a))
        elif issubclass(cls, T.CSRTypeInstruction):
            for csr in (0, 1, 0x300, 0xFFF):
                check("text_csr_%d" % csr, repr(cls(rd=rd, csr=csr, rs1=rs1)) == mn + " " + X(rd) + ", " + hex(csr) + ", " + X(rs1))
        elif issubclass(cls, T.CSRITypeInstruction):
            for csr in (0, 0x300, 0xFFF):
                check("text_csr_%d" % csr, repr(cls(rd=rd, csr=csr, uimm=imm)) == mn + " " + X(rd) + ", " + hex(csr) + ", " + str(imm % 32))
    return u


for _mn in instruction_map:
    if _mn != "fence":
        repr_unit(_mn)


@unit("C14/InstructionMemory.get_representation")
def listing():
    from architecture_simulator.isa.riscv.rv32i_instructions import ADD, LW, JAL
    im = InstructionMemory()
    a, b, c = ADD(1, 2, 3), LW(4, 5, -8), JAL(1, 16, 24)
    im.instructions = {8: c, 0: a, 4: b}
    before = snapshot(im)
    r = im.get_representation()
    check("sorted_by_address_with_printed_text", r == [(0, repr(a)), (4, repr(b)), (8, repr(c))])
    check_same("pure", before, snapshot(im))


@unit("C14/canary/store-operand-order", canary=True)
def canary_store():
    from architecture_simulator.isa.riscv.rv32i_instructions import SW
    rs1, rs2 = sym_int("rs1", 0, 31), sym_int("rs2", 0, 31)
    check("prints_rs1_first", repr(SW(rs1=rs1, rs2=rs2, imm=4)) == "sw " + X(rs1) + ", 4(" + X(rs2) + ")")
