"""Writes pyvc/fields_baseline.json: every attribute name the package stores to (self.x = ..., obj.x = ..., class-body
names, dataclass fields), collected from the AST of the tree the contracts were written against.  Whole-heap frame
obligations (check_same) use it: a difference located at an attribute that is NOT in this list concerns state the
contracts do not model -- the frame argument is then incomplete (UNDECIDED, left to the history-level bounded checks),
it is not evidence that the property is violated (a correct memo field or debug counter changes the heap, too).
usage: python -m pyvc.mkfields   (run on the pinned tree only; the file is committed, never rewritten by a check)"""
import ast
import json
import os
import subprocess

REPO = os.environ.get("VERIF_REPO", "/repo")


def main():
    names = set()
    for root, _, files in os.walk(os.path.join(REPO, "architecture_simulator")):
        for f in files:
            if not f.endswith(".py"):
                continue
            tree = ast.parse(open(os.path.join(root, f)).read())
            for st in tree.body:            # module-level tables
                if isinstance(st, ast.AnnAssign) and isinstance(st.target, ast.Name):
                    names.add(st.target.id)
                elif isinstance(st, ast.Assign):
                    for t in st.targets:
                        if isinstance(t, ast.Name):
                            names.add(t.id)
            for n in ast.walk(tree):
                if isinstance(n, ast.Attribute) and isinstance(n.ctx, ast.Store):
                    names.add(n.attr)
                elif isinstance(n, ast.ClassDef):
                    for st in n.body:
                        if isinstance(st, ast.AnnAssign) and isinstance(st.target, ast.Name):
                            names.add(st.target.id)
                        elif isinstance(st, ast.Assign):
                            for t in st.targets:
                                if isinstance(t, ast.Name):
                                    names.add(t.id)
                elif isinstance(n, ast.Call) and isinstance(n.func, ast.Name) and n.func.id == "setattr" and len(n.args) >= 2 and isinstance(n.args[1], ast.Constant):
                    names.add(str(n.args[1].value))
    commit = subprocess.run(["git", "-C", REPO, "rev-parse", "HEAD"], capture_output=True, text=True).stdout.strip()
    out = os.path.join(os.path.dirname(os.path.abspath(__file__)), "fields_baseline.json")
    json.dump({"commit": commit, "attributes": sorted(names)}, open(out, "w"), indent=0)
    print(len(names), "attribute names ->", out)


main()
