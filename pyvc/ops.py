"""Value-level operations of the executor: arithmetic, comparison, truth, merging."""
from __future__ import annotations
from . import ir
from .ir import Term
from .values import *

NUM = (int, SInt, SBool, FixedV)  # bool is an int


def is_sym(v):
    return isinstance(v, (SInt, SBool)) or (isinstance(v, FixedV) and isinstance(v.v, Term))


def is_numeric(v):
    return isinstance(v, NUM)


def to_term(v) -> Term:
    """Integer value -> INT term (bools become 0/1)."""
    if isinstance(v, bool):
        return ir.const(int(v))
    if isinstance(v, int):
        return ir.const(v)
    if isinstance(v, SInt):
        return v.t
    if isinstance(v, SBool):
        return ir.ite(v.t, 1, 0)
    if isinstance(v, FixedV):
        return ir.lift(v.v)
    raise Unsupported("not an integer value: %r" % (v,))


def to_bterm(v) -> Term:
    if isinstance(v, bool):
        return ir.bconst(v)
    if isinstance(v, SBool):
        return v.t
    raise Unsupported("not a boolean value: %r" % (v,))


def from_term(t: Term):
    """INT term -> int or SInt; BOOL term -> bool or SBool."""
    if t.sort == ir.BOOL:
        return ir.cval(t) if t.op == "bconst" else SBool(t)
    return ir.cval(t) if t.op == "const" else SInt(t)


def int_of(v):
    """int(v) for integer-like values: int | SInt."""
    if isinstance(v, bool):
        return int(v)
    if isinstance(v, int):
        return v
    if isinstance(v, SInt):
        return v
    if isinstance(v, SBool):
        return from_term(ir.ite(v.t, 1, 0))
    if isinstance(v, FixedV):
        return v.v if isinstance(v.v, int) else from_term(v.v)
    raise Unsupported("int() of %r" % (v,))


def mk_fixed(ft: FixedType, v):
    """ft(v) where v is an integer-like value."""
    v = int_of(v)
    if isinstance(v, int):
        return FixedV(ft, ft.rectify(v))
    r = ft.rectify(v.t)
    return FixedV(ft, ir.cval(r) if r.op == "const" else r)


def arith_convert(a, b):
    """fixedint result type of a binary operator, or None for plain ints."""
    fa = a.ft if isinstance(a, FixedV) else None
    fb = b.ft if isinstance(b, FixedV) else None
    if fa is None and fb is None:
        return None
    if fb is None:
        return fa
    if fa is None:
        return fb
    if fa.signed == fb.signed:
        return fa if fa.width >= fb.width else fb
    ut, st = (fa, fb) if not fa.signed else (fb, fa)
    return ut if ut.width >= st.width else st


def concretize(it, v, what="value"):
    """Fork over the possible values of a symbolic integer with a small finite interval."""
    v = int_of(v)
    if isinstance(v, int):
        return v
    t = v.t
    kv = it.path.known.get(t.id)
    if kv is not None:
        return kv
    if t.lo is None or t.hi is None or t.hi - t.lo > 256:
        raise Unsupported("cannot enumerate symbolic %s %s" % (what, ir.show(t)[:120]))
    vals = list(range(t.lo, t.hi + 1))
    k = it.path.choose([ir.eq(t, c) for c in vals], what)
    return vals[k]


def arith(it, op: str, a, b):
    """Binary arithmetic on integer-like values. op in add sub mul floordiv mod lshift rshift and or xor pow truediv."""
    if op in ("and", "or", "xor") and isinstance(a, (bool, SBool)) and isinstance(b, (bool, SBool)):
        ta, tb = to_bterm(a), to_bterm(b)
        if op == "and":
            return from_term(ir.band_(ta, tb))
        if op == "or":
            return from_term(ir.bor_(ta, tb))
        return from_term(ir.bnot_(ir.beq(ta, tb)))
    nt = arith_convert(a, b)
    # rlshift / rrshift are not overridden by fixedint: int << FixedInt gives a plain int
    if op in ("lshift", "rshift") and not isinstance(a, FixedV):
        nt = None
    if op == "truediv":
        x, y = int_of(a), int_of(b)
        if isinstance(x, int) and isinstance(y, int):
            if y == 0:
                it.raise_builtin("ZeroDivisionError", "division by zero")
            return x / y
        ty = to_term(y)
        if it.path.decide(ir.eq(ty, 0)):
            it.raise_builtin("ZeroDivisionError", "division by zero")
        return SQuot(to_term(x), ty)
    if op == "pow":
        x, y = int_of(a), int_of(b)
        if isinstance(y, SInt):
            y = concretize(it, y, "exponent")
        if y < 0:
            raise Unsupported("negative exponent")
        if isinstance(x, int):
            r = x ** y
        else:
            acc = ir.const(1)
            for _ in range(y):
                acc = ir.mul(acc, x.t)
            r = from_term(acc)
        if isinstance(a, FixedV):
            return mk_fixed(a.ft, r)
        return r
    x, y = int_of(a), int_of(b)
    if isinstance(x, int) and isinstance(y, int):
        if op in ("floordiv", "mod") and y == 0:
            it.raise_builtin("ZeroDivisionError", "integer division or modulo by zero")
        if op in ("lshift", "rshift") and y < 0:
            it.raise_builtin("ValueError", "negative shift count")
        r = _PYOP[op](x, y)
    else:
        if op in ("lshift", "rshift"):
            if not isinstance(y, int):
                y = concretize(it, y, "shift amount")
            if y < 0:
                it.raise_builtin("ValueError", "negative shift count")
            tx = to_term(x)
            r = from_term(ir.shl_const(tx, y) if op == "lshift" else ir.shr_const(tx, y))
        else:
            tx, ty = to_term(x), to_term(y)
            if op in ("floordiv", "mod"):
                if ty.op != "const":
                    if it.path.decide(ir.eq(ty, 0)):
                        it.raise_builtin("ZeroDivisionError", "integer division or modulo by zero")
                elif ir.cval(ty) == 0:
                    it.raise_builtin("ZeroDivisionError", "integer division or modulo by zero")
            r = from_term(_IROP[op](tx, ty))
    if nt is not None:
        return mk_fixed(nt, r)
    return r


_PYOP = {
    "add": lambda x, y: x + y, "sub": lambda x, y: x - y, "mul": lambda x, y: x * y,
    "floordiv": lambda x, y: x // y, "mod": lambda x, y: x % y,
    "lshift": lambda x, y: x << y, "rshift": lambda x, y: x >> y,
    "and": lambda x, y: x & y, "or": lambda x, y: x | y, "xor": lambda x, y: x ^ y,
}
_IROP = {
    "add": ir.add, "sub": ir.sub, "mul": ir.mul, "floordiv": ir.fdiv, "mod": ir.mod,
    "and": ir.band, "or": ir.bor, "xor": ir.bxor,
}


def unary(it, op: str, a):
    if op == "not":
        t = truth_val(it, a)
        if isinstance(t, bool):
            return not t
        return from_term(ir.bnot_(t.t))
    if isinstance(a, FixedV):
        x = int_of(a)
        if op == "invert":
            r = (~x) if isinstance(x, int) else from_term(ir.bnot(x.t))
        elif op == "neg":
            r = (-x) if isinstance(x, int) else from_term(ir.neg(x.t))
        else:
            r = x
        return mk_fixed(a.ft, r)
    x = int_of(a)
    if isinstance(x, int):
        return {"invert": lambda: ~x, "neg": lambda: -x, "pos": lambda: +x}[op]()
    if op == "invert":
        return from_term(ir.bnot(x.t))
    if op == "neg":
        return from_term(ir.neg(x.t))
    return x


def truth_val(it, v):
    """bool(v) as bool or SBool, without forking."""
    if v is None:
        return False
    if isinstance(v, bool):
        return v
    if isinstance(v, SBool):
        return v
    if isinstance(v, int):
        return v != 0
    if isinstance(v, SInt):
        return from_term(ir.ne(v.t, 0))
    if isinstance(v, FixedV):
        if isinstance(v.v, int):
            return v.v != 0
        return from_term(ir.ne(v.v, 0))
    if isinstance(v, (str, list, tuple, set, frozenset, range)):
        return len(v) > 0
    if isinstance(v, float):
        return v != 0
    if isinstance(v, SymStr):
        return True if v.parts else False
    if isinstance(v, DictV):
        if v.base is not None:
            raise Unsupported("truth value of a havocked dict")
        return len(v.entries) > 0
    if isinstance(v, Obj):
        f, _ = v.cls.lookup("__bool__")
        if f is not None:
            return truth_val(it, it.call(f, [v], {}))
        f, _ = v.cls.lookup("__len__")
        if f is not None:
            return truth_val(it, it.call(f, [v], {}))
        if v.items is not None:
            return len(v.items) > 0
        return True
    return True


def truth(it, v, what="branch") -> bool:
    """bool(v), forking on symbolic values."""
    t = truth_val(it, v)
    if isinstance(t, bool):
        return t
    return it.path.decide(t.t, what)


def merge(c: Term, a, b):
    """Value-level ite(c, a, b) for scalars; returns NotImplemented if not mergeable."""
    if a is b:
        return a
    if a is None or b is None:
        return NotImplemented
    if isinstance(a, FixedV) and isinstance(b, FixedV) and a.ft is b.ft:
        r = ir.ite(c, ir.lift(a.v), ir.lift(b.v))
        return FixedV(a.ft, ir.cval(r) if r.op == "const" else r)
    ba = isinstance(a, (bool, SBool))
    bb = isinstance(b, (bool, SBool))
    if ba and bb:
        return from_term(ir.bite(c, to_bterm(a), to_bterm(b)))
    if ba or bb:
        return NotImplemented
    if isinstance(a, (int, SInt)) and isinstance(b, (int, SInt)):
        return from_term(ir.ite(c, to_term(a), to_term(b)))
    if isinstance(a, str) and isinstance(b, str) and a == b:
        return a
    return NotImplemented


def py_eq(it, a, b):
    """a == b as bool or SBool."""
    if a is b and not isinstance(a, float):
        return True
    if a is None or b is None:
        return False
    if is_numeric(a) and is_numeric(b):
        if isinstance(a, (bool, SBool)) and isinstance(b, (bool, SBool)):
            return from_term(ir.beq(to_bterm(a), to_bterm(b)))
        return from_term(ir.eq(to_term(a), to_term(b)))
    if isinstance(a, (str, SymStr)) and isinstance(b, (str, SymStr)):
        return str_eq(a, b)
    if isinstance(a, (list, tuple)) and isinstance(b, (list, tuple)):
        if type(a) is not type(b) or len(a) != len(b):
            return False
        acc = ir.TRUE
        for x, y in zip(a, b):
            e = py_eq(it, x, y)
            if e is False:
                return False
            if e is not True:
                acc = ir.band_(acc, e.t)
        return from_term(acc)
    if isinstance(a, Obj):
        f, _ = a.cls.lookup("__eq__")
        if f is not None:
            r = it.call(f, [a, b], {})
            if r is not NotImplemented:
                return truth_val(it, r)
        if a.cls.is_dataclass and isinstance(b, Obj) and b.cls is a.cls and a.cls.dc_eq:
            return py_eq(it, tuple(a.fields.get(n) for n, _ in a.cls.dc_fields), tuple(b.fields.get(n) for n, _ in b.cls.dc_fields))
        if a.items is not None and isinstance(b, Obj) and b.items is not None:
            return py_eq(it, a.items, b.items)
        return False
    if isinstance(b, Obj):
        f, _ = b.cls.lookup("__eq__")
        if f is not None:
            return truth_val(it, it.call(f, [b, a], {}))
        return False
    if isinstance(a, DictV) and isinstance(b, DictV):
        if a.base is not None or b.base is not None or a.sym or b.sym:
            raise Unsupported("comparison of symbolic dicts")
        if len(a.entries) != len(b.entries):
            return False
        acc = ir.TRUE
        for k, v in a.entries:
            if k not in b.index:
                return False
            e = py_eq(it, v, b.entries[b.index[k]][1])
            if e is False:
                return False
            if e is not True:
                acc = ir.band_(acc, e.t)
        return from_term(acc)
    if isinstance(a, (SymStr, DictV, SInt, SBool, FixedV, SQuot)) or isinstance(b, (SymStr, DictV, SInt, SBool, FixedV, SQuot)):
        return False
    try:
        return bool(a == b)
    except Exception:
        return False


def str_eq(a, b):
    a, b = SymStr.of(a), SymStr.of(b)
    ca, cb = a.concrete(), b.concrete()
    if ca is not None and cb is not None:
        return ca == cb
    # split into comparable atoms: characters for str, whole part for symbolic parts
    pa, pb = _atoms(a), _atoms(b)
    # identical atoms at both ends cancel (terms are hash-consed: identity is structural equality); what is left decides
    def _same(x, y):
        if isinstance(x, str) or isinstance(y, str):
            return isinstance(x, str) and isinstance(y, str) and x == y
        return x[0] == y[0] and x[1] is y[1] and x[2:] == y[2:]
    while pa and pb and _same(pa[0], pb[0]):
        pa, pb = pa[1:], pb[1:]
    while pa and pb and _same(pa[-1], pb[-1]):
        pa, pb = pa[:-1], pb[:-1]
    if not pa and not pb:
        return True
    _one = lambda x: isinstance(x, str) or x[0] in ("bit", "hexd", "chr")
    _nonempty = lambda x: isinstance(x, str) or x[0] != "opaque"
    if (not pa and any(_nonempty(x) for x in pb)) or (not pb and any(_nonempty(x) for x in pa)):
        return False          # one side has text left, the other none
    if len(pa) != len(pb) and all(_one(x) for x in pa) and all(_one(x) for x in pb):
        return False          # different known lengths
    if len(pa) != len(pb):
        # lengths may still coincide for unknown-length parts; not decidable structurally
        if a.chars() is not None and b.chars() is not None:
            return False
        raise Unsupported("string comparison with different structure: %r vs %r" % (a, b))
    acc = ir.TRUE
    for x, y in zip(pa, pb):
        if isinstance(x, str) and isinstance(y, str):
            if x != y:
                return False
            continue
        if isinstance(x, str) or isinstance(y, str):
            s, p = (x, y) if isinstance(x, str) else (y, x)
            if p[0] == "bit" and s in "01":
                acc = ir.band_(acc, ir.eq(p[1], int(s)))
            elif p[0] == "hexd" and s in "0123456789ABCDEF":
                acc = ir.band_(acc, ir.eq(p[1], int(s, 16)))
            elif p[0] == "chr":
                acc = ir.band_(acc, ir.eq(p[1], ord(s)))
            elif p[0] in ("bit", "hexd"):
                return False
            else:
                raise Unsupported("string comparison literal vs %s part" % p[0])
            continue
        if x[0] != y[0] or x[2:] != y[2:]:
            raise Unsupported("string comparison of different part kinds: %s vs %s" % (x[0], y[0]))
        acc = ir.band_(acc, ir.eq(x[1], y[1]))
    return from_term(acc)


def _atoms(s: SymStr):
    out = []
    for p in s.parts:
        if isinstance(p, str):
            out.extend(p)
        else:
            out.append(p)
    return out


def compare(it, op: str, a, b):
    """op in Eq NotEq Lt LtE Gt GtE Is IsNot In NotIn -> bool | SBool"""
    if op == "Eq":
        return py_eq(it, a, b)
    if op == "NotEq":
        e = py_eq(it, a, b)
        return (not e) if isinstance(e, bool) else from_term(ir.bnot_(e.t))
    if op == "Is":
        return identical(a, b)
    if op == "IsNot":
        return not identical(a, b)
    if op in ("In", "NotIn"):
        r = contains(it, b, a)
        if op == "In":
            return r
        return (not r) if isinstance(r, bool) else from_term(ir.bnot_(r.t))
    if is_numeric(a) and is_numeric(b):
        ta, tb = to_term(a), to_term(b)
        f = {"Lt": ir.lt, "LtE": ir.le, "Gt": ir.gt, "GtE": ir.ge}[op]
        return from_term(f(ta, tb))
    if isinstance(a, (int, float)) and isinstance(b, (int, float)) or (isinstance(a, str) and isinstance(b, str)) \
            or (isinstance(a, tuple) and isinstance(b, tuple) and not any(is_sym(x) for x in a + b)):
        return {"Lt": a < b, "LtE": a <= b, "Gt": a > b, "GtE": a >= b}[op]
    raise Unsupported("ordering comparison of %r and %r" % (type(a).__name__, type(b).__name__))


def identical(a, b) -> bool:
    if a is b:
        return True
    if isinstance(a, bool) and isinstance(b, bool):
        return a == b
    if isinstance(a, type) and isinstance(b, type):
        return a is b
    return False


def contains(it, container, x):
    if isinstance(container, range):
        if container.step != 1:
            raise Unsupported("range with step in membership test")
        if isinstance(x, float):
            return x in container
        if not is_numeric(x):
            return False
        t = to_term(x)
        return from_term(ir.band_(ir.le(container.start, t), ir.lt(t, container.stop)))
    if isinstance(container, (list, tuple, set, frozenset)):
        if isinstance(container, (set, frozenset)) and not is_sym(x) and not isinstance(x, (Obj, SymStr)):
            try:
                return x in container
            except TypeError:
                pass
        acc = ir.FALSE
        for y in container:
            e = py_eq(it, x, y) if not (isinstance(x, ClassV) or isinstance(y, ClassV)) else (x is y)
            if e is True:
                return True
            if e is not False:
                acc = ir.bor_(acc, e.t)
        return from_term(acc)
    if isinstance(container, DictV):
        return it.dict_contains(container, x)
    if isinstance(container, str):
        if isinstance(x, str):
            return x in container
        raise Unsupported("symbolic substring test")
    if isinstance(container, Obj):
        if container.items is not None:
            return contains(it, container.items, x)
        f, _ = container.cls.lookup("__contains__")
        if f is not None:
            return truth_val(it, it.call(f, [container, x], {}))
    raise Unsupported("membership test on %r" % (type(container).__name__,))
