"""Term IR for verification conditions.

Every symbolic value the executor manipulates is a hash-consed ``Term`` of sort INT or BOOL.
Integers are mathematical (Python ints are), every fixed-width wrap is an explicit ``mod``.
Each INT term carries a conservative interval [lo, hi] (None = unbounded) and, when it is
known non-negative, a mask ``mb`` of the bits that may be set ("maybe bits").  The smart
constructors use these facts to keep obligations inside *one* SMT theory:

* ``x & c``, ``x | c``, ``x ^ c`` with constant ``c`` are rewritten to div/mod by constants;
* ``a | b`` / ``a ^ b`` with disjoint maybe-bits become ``a + b``; ``a & b`` becomes 0;
* ``x mod 2^k`` with ``x`` already in range is ``x``.

What remains as ``band/bor/bxor`` is a genuine symbolic-by-symbolic bit operation; an
obligation that contains one is lowered to bit-vectors (``lower.py``), all others to Int.

``ev(term, model)`` evaluates a term with *Python* semantics under a concrete model; it is
used to validate every solver counter-model independently of the lowering.
"""
from __future__ import annotations

INT = "int"
BOOL = "bool"

_table: dict = {}
_counter = [0]


class Term:
    __slots__ = ("op", "args", "sort", "lo", "hi", "mb", "id", "__weakref__")

    def __init__(self, op, args, sort, lo=None, hi=None, mb=None):
        self.op = op
        self.args = args
        self.sort = sort
        self.lo = lo
        self.hi = hi
        self.mb = mb
        _counter[0] += 1
        self.id = _counter[0]

    def __repr__(self):
        return show(self)

    def __bool__(self):
        raise TypeError("Term used as Python bool (engine bug): %s" % show(self))

    def __hash__(self):
        return self.id

    def __eq__(self, other):
        return self is other


def _key(op, args):
    return (op,) + tuple(a.id if isinstance(a, Term) else ("k", a) for a in args)


def _mk(op, args, sort, lo=None, hi=None, mb=None):
    k = _key(op, args)
    t = _table.get(k)
    if t is None:
        if sort == INT and lo is not None and lo >= 0:
            full = (1 << hi.bit_length()) - 1 if hi is not None else None
            if mb is None:
                mb = full
            elif full is not None:
                mb &= full
        else:
            mb = None
        t = Term(op, tuple(args), sort, lo, hi, mb)
        _table[k] = t
    return t


def reset_table():
    _table.clear()


# ----------------------------------------------------------------------------- leaves

def const(v: int) -> Term:
    assert isinstance(v, int) and not isinstance(v, bool), v
    return _mk("const", (v,), INT, v, v, v if v >= 0 else None)


def bconst(v: bool) -> Term:
    return _mk("bconst", (bool(v),), BOOL)


TRUE = bconst(True)
FALSE = bconst(False)


def var(name: str, lo=None, hi=None) -> Term:
    return _mk("var", (name, lo, hi), INT, lo, hi)


def bvar(name: str) -> Term:
    return _mk("bvar", (name,), BOOL)


def app(fname: str, idx: Term, lo=None, hi=None) -> Term:
    """Application of an uninterpreted Int->Int function (arrays are read through these)."""
    idx = lift(idx)
    return _mk("app", (fname, idx, lo, hi), INT, lo, hi)


def bapp(fname: str, idx: Term) -> Term:
    idx = lift(idx)
    return _mk("bapp", (fname, idx), BOOL)


def lift(x) -> Term:
    if isinstance(x, Term):
        return x
    if isinstance(x, bool):
        return bconst(x)
    if isinstance(x, int):
        return const(x)
    raise TypeError("cannot lift %r" % (x,))


def is_const(t: Term) -> bool:
    return t.op == "const" or t.op == "bconst"


def cval(t: Term):
    return t.args[0]


# ----------------------------------------------------------------------------- interval helpers

def _add(a, b):
    return None if a is None or b is None else a + b


def _neg(a):
    return None if a is None else -a


def _min(*xs):
    return None if any(x is None for x in xs) else min(xs)


def _max(*xs):
    return None if any(x is None for x in xs) else max(xs)


def _mul_iv(alo, ahi, blo, bhi):
    if None in (alo, ahi, blo, bhi):
        # partial knowledge: both non-negative
        if alo is not None and blo is not None and alo >= 0 and blo >= 0:
            return alo * blo, None
        return None, None
    c = [alo * blo, alo * bhi, ahi * blo, ahi * bhi]
    return min(c), max(c)


# ----------------------------------------------------------------------------- integer constructors

def add(a, b) -> Term:
    a, b = lift(a), lift(b)
    if a.op == "const" and b.op == "const":
        return const(cval(a) + cval(b))
    if a.op == "const" and cval(a) == 0:
        return b
    if b.op == "const" and cval(b) == 0:
        return a
    if a.op == "const":  # constants to the right
        a, b = b, a
    # (x + c1) + c2
    if b.op == "const" and a.op == "add" and a.args[1].op == "const":
        return add(a.args[0], cval(a.args[1]) + cval(b))
    # (x - c1) + c2 is normalised by sub -> add of negative const
    mb = None
    if a.mb is not None and b.mb is not None and (a.mb & b.mb) == 0:
        mb = a.mb | b.mb
    return _mk("add", (a, b), INT, _add(a.lo, b.lo), _add(a.hi, b.hi), mb)


def neg(a) -> Term:
    a = lift(a)
    if a.op == "const":
        return const(-cval(a))
    if a.op == "neg":
        return a.args[0]
    return _mk("neg", (a,), INT, _neg(a.hi), _neg(a.lo))


def sub(a, b) -> Term:
    a, b = lift(a), lift(b)
    if b.op == "const":
        return add(a, -cval(b))
    if a is b:
        return const(0)
    if a.op == "const" and cval(a) == 0:
        return neg(b)
    return _mk("sub", (a, b), INT, _add(a.lo, _neg(b.hi)), _add(a.hi, _neg(b.lo)))


def mul(a, b) -> Term:
    a, b = lift(a), lift(b)
    if a.op == "const" and b.op == "const":
        return const(cval(a) * cval(b))
    if a.op == "const":
        a, b = b, a
    if b.op == "const":
        c = cval(b)
        if c == 0:
            return const(0)
        if c == 1:
            return a
        if c == -1:
            return neg(a)
        if a.op == "ite" and _const_leaves(a):
            return ite(a.args[0], mul(a.args[1], c), mul(a.args[2], c))
        if a.op == "mul" and a.args[1].op == "const":
            return mul(a.args[0], cval(a.args[1]) * c)
        lo, hi = _mul_iv(a.lo, a.hi, c, c)
        mb = None
        if c > 0 and (c & (c - 1)) == 0 and a.mb is not None:
            mb = a.mb << (c.bit_length() - 1)
        return _mk("mul", (a, b), INT, lo, hi, mb)
    lo, hi = _mul_iv(a.lo, a.hi, b.lo, b.hi)
    if a.id > b.id:
        a, b = b, a
    return _mk("mul", (a, b), INT, lo, hi)



# ----------------------------------------------------------------------------- linear normal form (for div/mod by constants)

_lin_memo: dict = {}


def lin(t: Term):
    """t == const + sum(coeff * atom): returns (dict atom_id -> [atom, coeff], const).  Atoms are non-linear-in-this-sense terms."""
    r = _lin_memo.get(t.id)
    if r is not None:
        return r
    if t.op == "const":
        r = ({}, cval(t))
    elif t.op == "add" or t.op == "sub":
        da, ca = lin(t.args[0])
        db, cb = lin(t.args[1])
        sign = 1 if t.op == "add" else -1
        d = {k: [v[0], v[1]] for k, v in da.items()}
        for k, v in db.items():
            if k in d:
                d[k][1] += sign * v[1]
                if d[k][1] == 0:
                    del d[k]
            else:
                d[k] = [v[0], sign * v[1]]
        r = (d, ca + sign * cb)
    elif t.op == "neg":
        da, ca = lin(t.args[0])
        r = ({k: [v[0], -v[1]] for k, v in da.items()}, -ca)
    elif t.op == "mul" and t.args[1].op == "const":
        c = cval(t.args[1])
        da, ca = lin(t.args[0])
        r = ({k: [v[0], v[1] * c] for k, v in da.items()}, ca * c)
    else:
        r = ({t.id: [t, 1]}, 0)
    if len(_lin_memo) > 200000:
        _lin_memo.clear()
    _lin_memo[t.id] = r
    return r


def _from_lin(d, c) -> Term:
    acc = None
    for k in sorted(d):
        atom, co = d[k]
        piece = mul(atom, co)
        acc = piece if acc is None else add(acc, piece)
    if acc is None:
        return const(c)
    return add(acc, c) if c != 0 else acc


def _lin_interval(d, c):
    lo = hi = c
    for atom, co in d.values():
        a_lo, a_hi = atom.lo, atom.hi
        if co > 0:
            lo = None if (lo is None or a_lo is None) else lo + co * a_lo
            hi = None if (hi is None or a_hi is None) else hi + co * a_hi
        else:
            lo = None if (lo is None or a_hi is None) else lo + co * a_hi
            hi = None if (hi is None or a_lo is None) else hi + co * a_lo
    return lo, hi


def _split_divisible(a: Term, d: int):
    """a == d*Q + R with Q, R terms, R as small as the linear structure allows; returns (Q or None, R, changed)."""
    dd, c = lin(a)
    if len(dd) <= 0:
        return None, a, False
    q_part = {}
    r_part = {}
    for k, (atom, co) in dd.items():
        if co % d == 0:
            q_part[k] = [atom, co // d]
        else:
            r_part[k] = [atom, co]
    q0, r0 = divmod(c, d)
    if not q_part and q0 == 0:
        # nothing to pull out; still try to locate R in a single period
        lo, hi = _lin_interval(r_part, r0)
        if lo is not None and hi is not None and lo // d == hi // d and lo // d != 0:
            k = lo // d
            return const(k), _from_lin(r_part, r0 - k * d), True
        return None, a, False
    lo, hi = _lin_interval(r_part, r0)
    if lo is not None and hi is not None and lo // d == hi // d:
        k = lo // d
        q0 += k
        r0 -= k * d
    return _from_lin(q_part, q0), _from_lin(r_part, r0), True

def _floordiv_iv(alo, ahi, d):
    # d constant != 0
    if d > 0:
        return (None if alo is None else alo // d), (None if ahi is None else ahi // d)
    return (None if ahi is None else ahi // d), (None if alo is None else alo // d)


def _fdiv_raw(a: Term, d: int) -> Term:
    if a.op == "const":
        return const(cval(a) // d)
    if a.lo is not None and a.hi is not None and a.lo // d == a.hi // d:
        return const(a.lo // d)
    lo, hi = _floordiv_iv(a.lo, a.hi, d)
    mb = None
    if (d & (d - 1)) == 0 and a.mb is not None:
        mb = a.mb >> (d.bit_length() - 1)
    return _mk("fdiv", (a, const(d)), INT, lo, hi, mb)


def fdiv(a, b) -> Term:
    """Python floor division a // b (b != 0 is the caller's obligation)."""
    a, b = lift(a), lift(b)
    if b.op == "const":
        d = cval(b)
        if d == 0:
            raise ZeroDivisionError
        if a.op == "const":
            return const(cval(a) // d)
        if d == 1:
            return a
        if d > 0 and a.lo is not None and a.hi is not None and a.lo // d == a.hi // d:
            return const(a.lo // d)
        # (x * c) // d with d | c
        if a.op == "mul" and a.args[1].op == "const" and d > 0 and cval(a.args[1]) % d == 0:
            return mul(a.args[0], cval(a.args[1]) // d)
        # (x // d1) // d2 = x // (d1*d2) for positive divisors
        if d > 0 and a.op == "fdiv" and a.args[1].op == "const" and cval(a.args[1]) > 0:
            return fdiv(a.args[0], cval(a.args[1]) * d)
        if a.op == "ite" and _const_leaves(a):
            return ite(a.args[0], fdiv(a.args[1], d), fdiv(a.args[2], d))
        if d > 0 and a.op in ("add", "sub", "mul", "neg"):
            q, r, changed = _split_divisible(a, d)
            if changed:
                fr = const(0) if (r.lo is not None and r.hi is not None and 0 <= r.lo and r.hi < d) else _fdiv_raw(r, d)
                return add(q, fr)
        lo, hi = _floordiv_iv(a.lo, a.hi, d)
        mb = None
        if d > 0 and (d & (d - 1)) == 0 and a.mb is not None:
            mb = a.mb >> (d.bit_length() - 1)
        return _mk("fdiv", (a, b), INT, lo, hi, mb)
    lo = hi = None
    if b.lo is not None and b.lo > 0 and a.lo is not None and a.lo >= 0:
        lo = 0
        hi = a.hi
    elif b.lo is not None and b.lo > 0 and a.lo is not None and a.hi is not None:
        lo, hi = min(a.lo, 0), max(a.hi, 0)
    return _mk("fdiv", (a, b), INT, lo, hi)


def mod(a, b) -> Term:
    """Python modulo a % b (sign of divisor)."""
    a, b = lift(a), lift(b)
    if b.op == "const":
        m = cval(b)
        if m == 0:
            raise ZeroDivisionError
        if a.op == "const":
            return const(cval(a) % m)
        if m > 0:
            if a.lo is not None and a.hi is not None and 0 <= a.lo and a.hi < m:
                return a
            if m == 1:
                return const(0)
            pow2 = (m & (m - 1)) == 0
            # (x mod m1) mod m when m | m1
            if a.op == "mod" and a.args[1].op == "const" and cval(a.args[1]) > 0 and cval(a.args[1]) % m == 0:
                return mod(a.args[0], m)
            # (x*c) mod m with m | c
            if a.op == "mul" and a.args[1].op == "const" and cval(a.args[1]) % m == 0:
                return const(0)
            # (x + c) mod m: reduce c
            if a.op == "add" and a.args[1].op == "const":
                c = cval(a.args[1])
                if c % m != c:
                    return mod(add(a.args[0], c % m), m)
                # (x mod m1 + c) ... leave
            if a.op == "ite" and _const_leaves(a):
                return ite(a.args[0], mod(a.args[1], m), mod(a.args[2], m))
            if a.op in ("add", "sub", "mul", "neg"):
                q, r, changed = _split_divisible(a, m)
                if changed and r is not a:
                    return mod(r, m)
            mb = None
            if pow2:
                mb = (m - 1) if a.mb is None else (a.mb & (m - 1))
                if a.mb is not None and (a.mb & ~(m - 1)) == 0:
                    return a
            hi = m - 1
            if a.lo is not None and a.lo >= 0 and a.hi is not None:
                hi = min(hi, a.hi)
            return _mk("mod", (a, b), INT, 0, hi, mb)
        return _mk("mod", (a, b), INT, m + 1, 0)
    lo = hi = None
    if b.lo is not None and b.lo > 0:
        lo = 0
        hi = None if b.hi is None else b.hi - 1
        if a.lo is not None and a.lo >= 0 and a.hi is not None:
            hi = a.hi if hi is None else min(hi, a.hi)
    return _mk("mod", (a, b), INT, lo, hi)


def tdiv(a, b) -> Term:
    """Division truncating toward zero (what int(a / b) computes for exact quotients)."""
    a, b = lift(a), lift(b)
    if a.op == "const" and b.op == "const":
        x, y = cval(a), cval(b)
        q = abs(x) // abs(y)
        return const(q if (x >= 0) == (y > 0) else -q)
    lo = hi = None
    if a.lo is not None and a.hi is not None:
        m = max(abs(a.lo), abs(a.hi))
        lo, hi = -m, m
    return _mk("tdiv", (a, b), INT, lo, hi)


def _const_leaves(t: Term, depth=0) -> bool:
    if t.op == "const":
        return True
    if t.op == "ite" and depth < 8:
        return _const_leaves(t.args[1], depth + 1) and _const_leaves(t.args[2], depth + 1)
    return False


def _runs(mask: int):
    """Maximal runs of 1 bits of a non-negative mask as (lo_bit, length)."""
    out = []
    i = 0
    while mask >> i:
        if (mask >> i) & 1:
            j = i
            while (mask >> j) & 1:
                j += 1
            out.append((i, j - i))
            i = j
        else:
            i += 1
    return out


def _and_const(x: Term, c: int) -> Term:
    if c == 0:
        return const(0)
    if c == -1:
        return x
    if c < 0:
        # x & c = x - (x & ~c), ~c >= 0
        return sub(x, _and_const(x, ~c))
    if x.mb is not None:
        if (x.mb & ~c) == 0:
            return x
        c &= x.mb
        if c == 0:
            return const(0)
    if (c & (c + 1)) == 0:  # 2^k - 1
        return mod(x, c + 1)
    acc = None
    for lo_bit, ln in _runs(c):
        piece = mul(mod(fdiv(x, 1 << lo_bit), 1 << ln), 1 << lo_bit)
        acc = piece if acc is None else add(acc, piece)
    return acc


def band(a, b) -> Term:
    a, b = lift(a), lift(b)
    if a.op == "const" and b.op == "const":
        return const(cval(a) & cval(b))
    if a.op == "const":
        a, b = b, a
    if b.op == "const":
        if a.op == "ite" and _const_leaves(a):
            return ite(a.args[0], band(a.args[1], b), band(a.args[2], b))
        return _and_const(a, cval(b))
    if b.op == "ite" and _const_leaves(b):
        return ite(b.args[0], band(a, b.args[1]), band(a, b.args[2]))
    if a.op == "ite" and _const_leaves(a):
        return ite(a.args[0], band(a.args[1], b), band(a.args[2], b))
    if a is b:
        return a
    if a.mb is not None and b.mb is not None and (a.mb & b.mb) == 0:
        return const(0)
    if a.id > b.id:
        a, b = b, a
    lo = hi = mb = None
    if a.lo is not None and a.lo >= 0 and b.lo is not None and b.lo >= 0:
        lo = 0
        if a.hi is not None and b.hi is not None:
            hi = min(a.hi, b.hi)
        else:
            hi = a.hi if a.hi is not None else b.hi
        if a.mb is not None and b.mb is not None:
            mb = a.mb & b.mb
    elif a.lo is not None and a.lo >= 0:
        lo, hi, mb = 0, a.hi, a.mb
    elif b.lo is not None and b.lo >= 0:
        lo, hi, mb = 0, b.hi, b.mb
    else:
        lo, hi = _signed_box(a, b)
    return _mk("band", (a, b), INT, lo, hi, mb)


def _signed_box(a, b):
    if None in (a.lo, a.hi, b.lo, b.hi):
        return None, None
    k = max((max(abs(a.lo), abs(a.hi) + 1)).bit_length(), (max(abs(b.lo), abs(b.hi) + 1)).bit_length())
    return -(1 << k), (1 << k) - 1


def bnot(a) -> Term:
    a = lift(a)
    return sub(neg(a), 1)


def bor(a, b) -> Term:
    a, b = lift(a), lift(b)
    if a.op == "const" and b.op == "const":
        return const(cval(a) | cval(b))
    if a.op == "const":
        a, b = b, a
    if b.op == "const":
        c = cval(b)
        if c == 0:
            return a
        if a.op == "ite" and _const_leaves(a):
            return ite(a.args[0], bor(a.args[1], b), bor(a.args[2], b))
        if c > 0:
            # x | c = x + c - (x & c)
            return sub(add(a, c), _and_const(a, c))
        # c < 0: x | c = ~(~x & ~c)
        return bnot(_and_const(bnot(a), ~c))
    if a is b:
        return a
    if a.mb is not None and b.mb is not None and (a.mb & b.mb) == 0:
        return add(a, b)
    if a.id > b.id:
        a, b = b, a
    lo = hi = mb = None
    if a.mb is not None and b.mb is not None:
        mb = a.mb | b.mb
        lo, hi = max(a.lo, b.lo), mb
    else:
        lo, hi = _signed_box(a, b)
    return _mk("bor", (a, b), INT, lo, hi, mb)


def bxor(a, b) -> Term:
    a, b = lift(a), lift(b)
    if a.op == "const" and b.op == "const":
        return const(cval(a) ^ cval(b))
    if a.op == "const":
        a, b = b, a
    if b.op == "const":
        c = cval(b)
        if c == 0:
            return a
        if a.op == "ite" and _const_leaves(a):
            return ite(a.args[0], bxor(a.args[1], b), bxor(a.args[2], b))
        if c > 0:
            # x ^ c = x + c - 2*(x & c)
            return sub(add(a, c), mul(_and_const(a, c), 2))
        # x ^ c = ~(x ^ ~c)
        return bnot(bxor(a, const(~c)))
    if a is b:
        return const(0)
    if a.mb is not None and b.mb is not None and (a.mb & b.mb) == 0:
        return add(a, b)
    if a.id > b.id:
        a, b = b, a
    lo = hi = mb = None
    if a.mb is not None and b.mb is not None:
        mb = a.mb | b.mb
        lo, hi = 0, mb
    else:
        lo, hi = _signed_box(a, b)
    return _mk("bxor", (a, b), INT, lo, hi, mb)


def shl_const(a, s: int) -> Term:
    assert s >= 0
    return mul(a, 1 << s)


def shr_const(a, s: int) -> Term:
    assert s >= 0
    return fdiv(a, 1 << s)


def ite(c, a, b) -> Term:
    c = lift(c)
    if isinstance(a, bool) or isinstance(b, bool) or (isinstance(a, Term) and a.sort == BOOL):
        return bite(c, a, b)
    a, b = lift(a), lift(b)
    if c.op == "bconst":
        return a if cval(c) else b
    if a is b:
        return a
    mb = None
    if a.mb is not None and b.mb is not None:
        mb = a.mb | b.mb
    return _mk("ite", (c, a, b), INT, _min(a.lo, b.lo), _max(a.hi, b.hi), mb)


# ----------------------------------------------------------------------------- boolean constructors

def bnot_(a) -> Term:
    a = lift(a)
    if a.op == "bconst":
        return bconst(not cval(a))
    if a.op == "not":
        return a.args[0]
    return _mk("not", (a,), BOOL)


def band_(a, b) -> Term:
    a, b = lift(a), lift(b)
    if a.op == "bconst":
        return b if cval(a) else FALSE
    if b.op == "bconst":
        return a if cval(b) else FALSE
    if a is b:
        return a
    return _mk("and", (a, b), BOOL)


def bor_(a, b) -> Term:
    a, b = lift(a), lift(b)
    if a.op == "bconst":
        return TRUE if cval(a) else b
    if b.op == "bconst":
        return TRUE if cval(b) else a
    if a is b:
        return a
    return _mk("or", (a, b), BOOL)


def conj(ts) -> Term:
    acc = TRUE
    for t in ts:
        acc = band_(acc, t)
    return acc


def disj(ts) -> Term:
    acc = FALSE
    for t in ts:
        acc = bor_(acc, t)
    return acc


def implies(a, b) -> Term:
    return bor_(bnot_(a), b)


def bite(c, a, b) -> Term:
    c, a, b = lift(c), lift(a), lift(b)
    if c.op == "bconst":
        return a if cval(c) else b
    if a is b:
        return a
    if a.op == "bconst" and b.op == "bconst":
        return c if cval(a) else bnot_(c)
    return _mk("bite", (c, a, b), BOOL)


def beq(a, b) -> Term:
    a, b = lift(a), lift(b)
    if a is b:
        return TRUE
    if a.op == "bconst":
        return b if cval(a) else bnot_(b)
    if b.op == "bconst":
        return a if cval(b) else bnot_(a)
    return _mk("beq", (a, b), BOOL)


def eq(a, b) -> Term:
    a, b = lift(a), lift(b)
    if a.sort == BOOL or b.sort == BOOL:
        if a.sort != b.sort:
            # bool vs int comparison (True == 1)
            a = a if a.sort == INT else ite(a, 1, 0)
            b = b if b.sort == INT else ite(b, 1, 0)
        else:
            return beq(a, b)
    if a is b:
        return TRUE
    if a.op == "const" and b.op == "const":
        return bconst(cval(a) == cval(b))
    if a.lo is not None and b.hi is not None and a.lo > b.hi:
        return FALSE
    if a.hi is not None and b.lo is not None and a.hi < b.lo:
        return FALSE
    if a.op == "const":
        a, b = b, a
    if b.op == "const" and a.op == "ite" and _const_leaves(a):
        return bite(a.args[0], eq(a.args[1], b), eq(a.args[2], b))
    if a.id > b.id and b.op != "const":
        a, b = b, a
    return _mk("eq", (a, b), BOOL)


def ne(a, b) -> Term:
    return bnot_(eq(a, b))


def lt(a, b) -> Term:
    a, b = lift(a), lift(b)
    if a.sort == BOOL:
        a = ite(a, 1, 0)
    if b.sort == BOOL:
        b = ite(b, 1, 0)
    if a is b:
        return FALSE
    if a.op == "const" and b.op == "const":
        return bconst(cval(a) < cval(b))
    if a.hi is not None and b.lo is not None and a.hi < b.lo:
        return TRUE
    if a.lo is not None and b.hi is not None and a.lo >= b.hi:
        return FALSE
    return _mk("lt", (a, b), BOOL)


def le(a, b) -> Term:
    a, b = lift(a), lift(b)
    if a.sort == BOOL:
        a = ite(a, 1, 0)
    if b.sort == BOOL:
        b = ite(b, 1, 0)
    if a is b:
        return TRUE
    if a.op == "const" and b.op == "const":
        return bconst(cval(a) <= cval(b))
    if a.hi is not None and b.lo is not None and a.hi <= b.lo:
        return TRUE
    if a.lo is not None and b.hi is not None and a.lo > b.hi:
        return FALSE
    return _mk("le", (a, b), BOOL)


def gt(a, b) -> Term:
    return lt(b, a)


def ge(a, b) -> Term:
    return le(b, a)


# ----------------------------------------------------------------------------- traversal, printing

def subterms(roots):
    seen = {}
    stack = list(roots)
    while stack:
        t = stack.pop()
        if t.id in seen:
            continue
        seen[t.id] = t
        for a in t.args:
            if isinstance(a, Term):
                stack.append(a)
    return seen.values()


def has_bitop(roots) -> bool:
    return any(t.op in ("band", "bor", "bxor") for t in subterms(roots))


def has_nonlinear(roots) -> bool:
    for t in subterms(roots):
        if t.op == "mul" and t.args[1].op != "const":
            return True
        if t.op in ("fdiv", "mod", "tdiv") and t.args[1].op != "const":
            return True
    return False


_INFIX = {"add": "+", "sub": "-", "mul": "*", "fdiv": "//", "mod": "%", "band": "&", "bor": "|",
          "bxor": "^", "eq": "==", "lt": "<", "le": "<=", "and": "and", "or": "or", "beq": "<=>"}


def show(t: Term, depth=0) -> str:
    if depth > 12:
        return "..."
    if t.op in ("const", "bconst"):
        return repr(t.args[0])
    if t.op in ("var", "bvar"):
        return t.args[0]
    if t.op in ("app", "bapp"):
        return "%s[%s]" % (t.args[0], show(t.args[1], depth + 1))
    if t.op in _INFIX:
        return "(%s %s %s)" % (show(t.args[0], depth + 1), _INFIX[t.op], show(t.args[1], depth + 1))
    if t.op == "neg":
        return "-%s" % show(t.args[0], depth + 1)
    if t.op == "not":
        return "not %s" % show(t.args[0], depth + 1)
    if t.op in ("ite", "bite"):
        return "(%s if %s else %s)" % (show(t.args[1], depth + 1), show(t.args[0], depth + 1), show(t.args[2], depth + 1))
    if t.op == "tdiv":
        return "tdiv(%s, %s)" % (show(t.args[0], depth + 1), show(t.args[1], depth + 1))
    return "%s(%s)" % (t.op, ", ".join(show(a, depth + 1) if isinstance(a, Term) else repr(a) for a in t.args))


# ----------------------------------------------------------------------------- concrete evaluation

class ModelGap(Exception):
    pass


def ev(t: Term, model: dict, memo=None):
    """Evaluate with Python semantics. model: var name -> int/bool; UF name -> (dict, default)."""
    if memo is None:
        memo = {}
    stack = [t]
    while stack:
        u = stack[-1]
        if u.id in memo:
            stack.pop()
            continue
        # short-circuit for ite to avoid evaluating undefined branches (div by zero)
        if u.op in ("ite", "bite"):
            c = u.args[0]
            if c.id not in memo:
                stack.append(c)
                continue
            br = u.args[1] if memo[c.id] else u.args[2]
            if br.id not in memo:
                stack.append(br)
                continue
            memo[u.id] = memo[br.id]
            stack.pop()
            continue
        if u.op == "and":
            a, b = u.args
            if a.id not in memo:
                stack.append(a)
                continue
            if not memo[a.id]:
                memo[u.id] = False
                stack.pop()
                continue
            if b.id not in memo:
                stack.append(b)
                continue
            memo[u.id] = bool(memo[b.id])
            stack.pop()
            continue
        if u.op == "or":
            a, b = u.args
            if a.id not in memo:
                stack.append(a)
                continue
            if memo[a.id]:
                memo[u.id] = True
                stack.pop()
                continue
            if b.id not in memo:
                stack.append(b)
                continue
            memo[u.id] = bool(memo[b.id])
            stack.pop()
            continue
        pending = [a for a in u.args if isinstance(a, Term) and a.id not in memo]
        if pending:
            stack.extend(pending)
            continue
        stack.pop()
        memo[u.id] = _ev1(u, [memo[a.id] if isinstance(a, Term) else a for a in u.args], model)
    return memo[t.id]


def _ev1(u, a, model):
    op = u.op
    if op in ("const", "bconst"):
        return a[0]
    if op == "var":
        if a[0] in model:
            return int(model[a[0]])
        lo, hi = a[1], a[2]
        return lo if lo is not None and lo > 0 else (hi if hi is not None and hi < 0 else 0)
    if op == "bvar":
        return bool(model.get(a[0], False))
    if op == "app":
        tbl, dflt = model.get(a[0], ({}, None))
        if a[1] in tbl:
            return tbl[a[1]]
        if dflt is not None:
            return dflt
        lo, hi = a[2], a[3]
        return lo if lo is not None and lo > 0 else (hi if hi is not None and hi < 0 else 0)
    if op == "bapp":
        tbl, dflt = model.get(a[0], ({}, False))
        return bool(tbl.get(a[1], dflt if dflt is not None else False))
    if op == "add":
        return a[0] + a[1]
    if op == "sub":
        return a[0] - a[1]
    if op == "neg":
        return -a[0]
    if op == "mul":
        return a[0] * a[1]
    if op == "fdiv":
        if a[1] == 0:
            raise ModelGap("division by zero in model evaluation")
        return a[0] // a[1]
    if op == "mod":
        if a[1] == 0:
            raise ModelGap("modulo by zero in model evaluation")
        return a[0] % a[1]
    if op == "tdiv":
        if a[1] == 0:
            raise ModelGap("division by zero in model evaluation")
        q = abs(a[0]) // abs(a[1])
        return q if (a[0] >= 0) == (a[1] > 0) else -q
    if op == "band":
        return a[0] & a[1]
    if op == "bor":
        return a[0] | a[1]
    if op == "bxor":
        return a[0] ^ a[1]
    if op == "not":
        return not a[0]
    if op == "eq":
        return a[0] == a[1]
    if op == "beq":
        return bool(a[0]) == bool(a[1])
    if op == "lt":
        return a[0] < a[1]
    if op == "le":
        return a[0] <= a[1]
    raise AssertionError("ev: unknown op %s" % op)
