"""Which attribute names do the contracts model?  (see mkfields.py)  Used to classify whole-heap frame differences."""
import json
import os
import re

_BASE = None


def baseline():
    global _BASE
    if _BASE is None:
        with open(os.path.join(os.path.dirname(os.path.abspath(__file__)), "fields_baseline.json")) as f:
            _BASE = set(json.load(f)["attributes"]) | {"keys", "values"}
    return _BASE


def unmodelled(obligation_name):
    """for an obligation `<check_same name>@<path>`: the first attribute on the path that the package did not have when
    the contracts were written, or None"""
    if "@" not in obligation_name:
        return None
    path = obligation_name.split("@", 1)[1]
    path = re.sub(r"\[[^\]]*\]", "", path)          # subscripts (indices, dictionary keys) are not attributes
    for seg in re.findall(r"\.([A-Za-z_][A-Za-z0-9_]*)", path):
        if seg not in baseline():
            return seg
    return None


class Seen:
    """object numbering of a heap snapshot: objects first reached below an unmodelled attribute are numbered in a space
    of their own ("u", n), everything else 0, 1, 2, ... in visiting order"""

    def __init__(self):
        self.main = {}
        self.u = {}
        self.depth_u = 0

    def ref(self, key):
        if key in self.main:
            return self.main[key]
        if self.depth_u and key in self.u:
            return self.u[key]
        return None

    def new(self, key):
        if self.depth_u:
            self.u[key] = ("u", len(self.u))
            return self.u[key]
        self.main[key] = len(self.main)
        return self.main[key]
