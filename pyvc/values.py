"""Run-time values of the symbolic executor."""
from __future__ import annotations
from . import ir
from .ir import Term


class Unsupported(Exception):
    """The executor met a construct outside its subset: the unit is *undecided*."""


class AbortPath(Exception):
    """The current path condition is infeasible (or an assume() failed)."""


class BoundExceeded(Exception):
    """A while-loop without invariant exceeded the unrolling bound."""


class PyRaise(Exception):
    """An interpreted Python exception in flight."""

    def __init__(self, exc):
        Exception.__init__(self)
        self.exc = exc


class SInt:
    __slots__ = ("t",)

    def __init__(self, t):
        self.t = t

    def __repr__(self):
        return "SInt(%s)" % ir.show(self.t)


class SBool:
    __slots__ = ("t",)

    def __init__(self, t):
        self.t = t

    def __repr__(self):
        return "SBool(%s)" % ir.show(self.t)


class SQuot:
    """Result of int / int true division with a symbolic operand; only int() and math.ceil consume it."""
    __slots__ = ("a", "b")

    def __init__(self, a, b):
        self.a = a
        self.b = b


class FixedType:
    """Model of a fixedint.FixedInt(width, signed) class."""
    _cache: dict = {}

    def __new__(cls, width, signed):
        k = (width, bool(signed))
        o = cls._cache.get(k)
        if o is None:
            o = object.__new__(cls)
            o.width = width
            o.signed = bool(signed)
            o.name = ("" if signed else "U") + "Int" + str(width)
            if signed:
                o.minval = -(1 << (width - 1))
                o.maxval = (1 << (width - 1)) - 1
            else:
                o.minval = 0
                o.maxval = (1 << width) - 1
            cls._cache[k] = o
        return o

    def __repr__(self):
        return self.name

    def rectify(self, v):
        """v: int or Term -> int or Term, the fixedint _rectify."""
        w = self.width
        if isinstance(v, int):
            if self.signed:
                return (v & ((1 << (w - 1)) - 1)) - (v & (1 << (w - 1)))
            return v & ((1 << w) - 1)
        if self.signed:
            # ((v + 2^(w-1)) mod 2^w) - 2^(w-1)
            if v.lo is not None and v.hi is not None and self.minval <= v.lo and v.hi <= self.maxval:
                return v
            h = 1 << (w - 1)
            m = ir.mod(v, 1 << w)
            return ir.ite(ir.ge(m, h), ir.sub(m, 1 << w), m)
        return ir.mod(v, 1 << w)


class FixedV:
    __slots__ = ("ft", "v")

    def __init__(self, ft, v):
        self.ft = ft
        self.v = v

    def __repr__(self):
        return "%s(%s)" % (self.ft.name, self.v if isinstance(self.v, int) else ir.show(self.v))


class SymStr:
    """A string made of parts: python str | (kind, term[, extra]).

    kinds with known length 1: 'bit' (term in {0,1}), 'hexd' (term in 0..15, upper-case digit), 'chr' (code point).
    kinds with unknown length: 'dec' (str(int)), 'hex' (format X, no padding), 'bin' (bin(x) incl. 0b), 'fmt' (spec, term),
    'float32' (str of the float whose IEEE bits are term).
    """
    __slots__ = ("parts",)

    def __init__(self, parts):
        out = []
        for p in parts:
            if isinstance(p, str):
                if not p:
                    continue
                if out and isinstance(out[-1], str):
                    out[-1] = out[-1] + p
                else:
                    out.append(p)
            else:
                out.append(p)
        self.parts = out

    def __repr__(self):
        return "SymStr(%r)" % (self.parts,)

    @staticmethod
    def of(v):
        if isinstance(v, SymStr):
            return v
        return SymStr([v])

    def concrete(self):
        if all(isinstance(p, str) for p in self.parts):
            return "".join(self.parts)
        return None

    def chars(self):
        """List of single-character parts, or None if some part has unknown length."""
        out = []
        for p in self.parts:
            if isinstance(p, str):
                out.extend(p)
            elif p[0] in ("bit", "hexd", "chr"):
                out.append(p)
            else:
                return None
        return out


def mkstr(parts):
    s = SymStr(parts)
    c = s.concrete()
    return c if c is not None else s


class ClassV:
    def __init__(self, name, bases, ns, module):
        self.name = name
        self.bases = bases
        self.ns = ns
        self.module = module
        self.mro = None
        self.is_dataclass = False
        self.dc_fields = None      # list of (name, FieldSpec)
        self.dc_eq = False
        self.is_enum = False
        self.native_base = None    # 'list' | 'exception' | None
        self.qualname = (module + ":" + name) if module else name

    def __repr__(self):
        return "<class %s>" % self.qualname

    def lookup(self, name):
        for c in self.mro:
            if name in c.ns:
                return c.ns[name], c
        return None, None

    def issubclass(self, other):
        return other in self.mro


class Obj:
    __slots__ = ("cls", "fields", "items", "oid")
    _n = [0]

    def __init__(self, cls):
        self.cls = cls
        self.fields = {}
        self.items = None   # payload for list subclasses
        Obj._n[0] += 1
        self.oid = Obj._n[0]

    def __repr__(self):
        return "<%s #%d>" % (self.cls.name, self.oid)


class FuncV:
    def __init__(self, name, node, env, module_ns, defaults, kwdefaults, module_name):
        self.name = name
        self.node = node
        self.env = env              # enclosing Env for closures (None at module level)
        self.module_ns = module_ns
        self.defaults = defaults
        self.kwdefaults = kwdefaults
        self.owner = None           # ClassV in whose body this was defined
        self.module_name = module_name

    def __repr__(self):
        return "<function %s>" % self.name


class BoundMethod:
    __slots__ = ("func", "self_")

    def __init__(self, func, self_):
        self.func = func
        self.self_ = self_


class Builtin:
    __slots__ = ("name", "fn")

    def __init__(self, name, fn):
        self.name = name
        self.fn = fn

    def __repr__(self):
        return "<builtin %s>" % self.name


class ModuleV:
    def __init__(self, name, ns):
        self.name = name
        self.ns = ns

    def __repr__(self):
        return "<module %s>" % self.name


class SuperV:
    __slots__ = ("cls", "obj")

    def __init__(self, cls, obj):
        self.cls = cls
        self.obj = obj


class StaticM:
    __slots__ = ("f",)

    def __init__(self, f):
        self.f = f


class ClassM:
    __slots__ = ("f",)

    def __init__(self, f):
        self.f = f


class PropertyV:
    __slots__ = ("fget",)

    def __init__(self, fget):
        self.fget = fget


class TypingDummy:
    """Stands for anything imported from typing / abc machinery; subscriptable and callable."""

    def __init__(self, name="typing"):
        self.name = name

    def __repr__(self):
        return "<typing %s>" % self.name


class FieldSpec:
    """dataclasses.field(...) result."""
    __slots__ = ("default", "factory", "has_default")

    def __init__(self, default=None, factory=None, has_default=False):
        self.default = default
        self.factory = factory
        self.has_default = has_default


class LogList(list):
    """A fixed-length list with symbolic-index writes kept as a write log (array theory by read-over-write) instead
    of 32 element-wise ite's.  Storage (the list itself) holds the base elements; `log` holds later writes
    (index int|Term, value) oldest first; `uf` names an uninterpreted function for symbolic-index reads of the base."""

    def __init__(self, items, uf=None, wrap=None, lo=None, hi=None):
        list.__init__(self, items)
        self.log = []
        self.uf = uf
        self.wrap = wrap
        self.lo = lo
        self.hi = hi

    def clone(self):
        c = LogList(list.__iter__(self), self.uf, self.wrap, self.lo, self.hi)
        c.log = list(self.log)
        return c


class UF:
    """Base of a symbolic map: value function + presence predicate."""
    __slots__ = ("name", "lo", "hi", "wrap", "total")

    def __init__(self, name, lo, hi, wrap, total):
        self.name = name
        self.lo = lo
        self.hi = hi
        self.wrap = wrap    # FixedType or None: how values are presented
        self.total = total  # every key present


class DictV:
    """Interpreted dict. Ordered entries; keys may be symbolic ints; optional UF base (havocked content)."""
    __slots__ = ("entries", "index", "base", "sym", "default_factory")

    def __init__(self, base=None):
        self.entries = []     # list of [key, value]
        self.index = {}       # concrete hashable key -> position (valid while no symbolic key is present)
        self.base = base      # UF or None
        self.sym = False      # a symbolic key has been stored
        self.default_factory = None

    def __repr__(self):
        return "DictV(%d entries%s)" % (len(self.entries), ", base=%s" % self.base.name if self.base else "")


class Env:
    __slots__ = ("vars", "parent", "globals", "func", "is_comp", "self_obj", "globals_decl")

    def __init__(self, vars, parent, globals_, func=None, is_comp=False):
        self.vars = vars
        self.parent = parent
        self.globals = globals_
        self.func = func
        self.is_comp = is_comp
        self.self_obj = None
        self.globals_decl = None


