"""The contract API as seen by contract modules *under the symbolic executor* (module name pyvc.api).

The same names exist natively in pyvc/api.py; a contract file therefore runs unchanged
(a) symbolically, once per path, producing obligations, and (b) natively under CPython with a
concrete model, which is how counter-models are replayed against the real code.
"""
from __future__ import annotations
from . import ir
from .values import *
from . import ops


class Snap:
    __slots__ = ("tree",)

    def __init__(self, tree):
        self.tree = tree


class Session:
    """Collects units while contract modules are imported."""

    def __init__(self):
        self.units = {}      # name -> (FuncV, meta)


def make_api(it, session: Session):
    ns = {}

    def reg(name):
        def deco(fn):
            ns[name] = Builtin(name, fn)
            return fn
        return deco

    @reg("unit")
    def unit(it_, a, k):
        name = a[0]
        meta = dict(k)

        def deco(it2, a2, k2):
            f = a2[0]
            if name in session.units:
                raise Unsupported("duplicate unit name " + name)
            session.units[name] = (f, meta)
            return f
        return Builtin("unit-decorator", deco)

    @reg("native")
    def native(it_, a, k):
        return False

    @reg("sym_int")
    def sym_int(it_, a, k):
        name = a[0]
        lo = a[1] if len(a) > 1 else k.get("lo")
        hi = a[2] if len(a) > 2 else k.get("hi")
        it.path.notes.setdefault("inputs", {})[name] = ("int", lo, hi)
        return SInt(ir.var(name, lo, hi))

    @reg("sym_bool")
    def sym_bool(it_, a, k):
        it.path.notes.setdefault("inputs", {})[a[0]] = ("bool",)
        return SBool(ir.bvar(a[0]))

    @reg("sym_fixed")
    def sym_fixed(it_, a, k):
        name, ft = a[0], a[1]
        if not isinstance(ft, FixedType):
            raise Unsupported("sym_fixed needs a fixedint type")
        it.path.notes.setdefault("inputs", {})[name] = ("fixed", ft.name)
        return FixedV(ft, ir.var(name, ft.minval, ft.maxval))

    @reg("sym_list")
    def sym_list(it_, a, k):
        """sym_list(name, n, fixedint type): a list of n arbitrary values of that type, read through an uninterpreted
        function when indexed symbolically (array theory instead of n-way ite chains)."""
        name, n, ft = a[0], a[1], a[2]
        if not isinstance(ft, FixedType):
            raise Unsupported("sym_list needs a fixedint type")
        it.path.notes.setdefault("inputs", {})[name] = ("list", n, ft.name)
        items = [FixedV(ft, ir.app(name, ir.const(j), ft.minval, ft.maxval)) for j in range(n)]
        return LogList(items, uf=name, wrap=ft, lo=ft.minval, hi=ft.maxval)

    @reg("sym_map")
    def sym_map(it_, a, k):
        """A dict[int, value] with arbitrary content. wrap: fixedint type of the values (or None for ints in [lo,hi])."""
        name = a[0]
        wrap = a[1] if len(a) > 1 else k.get("wrap")
        lo, hi = k.get("lo"), k.get("hi")
        if isinstance(wrap, FixedType):
            lo, hi = wrap.minval, wrap.maxval
        elif wrap is not None:
            raise Unsupported("sym_map wrap must be a fixedint type")
        it.path.notes.setdefault("inputs", {})[name] = ("map", wrap.name if wrap else None, lo, hi, k.get("keys_lo"), k.get("keys_hi"))
        d = DictV(UF(name, lo, hi, wrap, False))
        d.sym = True
        return d

    @reg("assume")
    def assume(it_, a, k):
        t = ops.truth_val(it, a[0])
        it.path.assume(ir.lift(t) if isinstance(t, bool) else t.t)
        return None

    @reg("check")
    def check(it_, a, k):
        name, c = a[0], a[1]
        t = ops.truth_val(it, c)
        it.path.checks.append((name, ir.lift(t) if isinstance(t, bool) else t.t, list(it.path.pc)))
        return None

    @reg("reach")
    def reach(it_, a, k):
        it.path.notes.setdefault("reach", []).append(a[0])
        return None

    @reg("note")
    def note(it_, a, k):
        it.path.notes.setdefault("notes", {})[a[0]] = a[1]
        return None

    @reg("implies")
    def implies(it_, a, k):
        p = ops.truth_val(it, a[0])
        q = ops.truth_val(it, a[1])
        return ops.from_term(ir.implies(ir.lift(p) if isinstance(p, bool) else p.t, ir.lift(q) if isinstance(q, bool) else q.t))

    @reg("ite")
    def ite_(it_, a, k):
        c = ops.truth_val(it, a[0])
        if isinstance(c, bool):
            return a[1] if c else a[2]
        m = ops.merge(c.t, a[1], a[2])
        if m is NotImplemented:
            return a[1] if it.path.decide(c.t, "ite") else a[2]
        return m

    @reg("split")
    def split(it_, a, k):
        """Case-split on the value of a small-range symbolic integer (all values are explored)."""
        v = a[0]
        if isinstance(v, (SInt, FixedV)) :
            return ops.concretize(it, v, "split")
        if isinstance(v, SBool):
            return it.path.decide(v.t, "split")
        return v

    @reg("run_slice")
    def run_slice(it_, a, k):
        """run_slice(module, qualname, if_test, env, keep, capture_calls=(), nth=0) -> dict(env after, '__tests__': [...], '__captured__': [...])"""
        import ast as _ast
        from . import slices
        module, qualname, if_test, env0, keep = a[0], a[1], a[2], a[3], a[4]
        capture = tuple(k.get("capture_calls", ()))
        nth = k.get("nth", 0)
        m = it.import_module(module)
        with open(it.sources[module]) as f:
            tree = _ast.parse(f.read())
        vars_ = {kk: vv for kk, vv in it.dict_items(env0)}
        keep_names = set(it.iterate(keep))
        try:
            body = slices.select(tree, qualname, if_test, nth)
            items = slices.keep_statements(body, keep_names, capture, tuple(vars_))
        except slices.SliceMismatch as e:
            raise Unsupported("harness does not match the source: %s" % e)
        env = Env(vars_, None, m.ns)
        tests, captured = [], []
        for kind, node in items:
            if kind == "stmt":
                try:
                    it.exec_stmt(node, env)
                except PyRaise as e:
                    cn = getattr(getattr(e, "exc", None), "cls", None)
                    cn = getattr(cn, "qualname", "") or getattr(cn, "name", "")
                    if cn.split(".")[-1] in ("NameError", "AttributeError", "UnboundLocalError"):
                        raise Unsupported("harness does not match the source: sliced statement `%s` needs dropped context" % _ast.unparse(node)[:80])
                    raise
            else:
                # tests / captured values that need dropped context (ParseResults tokens) are recorded as None
                try:
                    v = it.eval(node, env)
                except (PyRaise, Unsupported):
                    v = None
                (tests if kind == "test" else captured).append(v)
        out = DictV()
        for kk, vv in vars_.items():
            it.dict_set(out, kk, vv)
        it.dict_set(out, "__tests__", tests)
        it.dict_set(out, "__captured__", captured)
        it.dict_set(out, "__n_statements__", len([1 for kind, _ in items if kind == "stmt"]))
        for kn in keep_names:
            if kn not in vars_:
                raise Unsupported("harness does not match the source: the slice does not define `%s`" % kn)
        return out

    @reg("run_loop_part")
    def run_loop_part(it_, a, k):
        """run_loop_part(module, qualname, case_value, part, env) with part in init | step | exit -> dict(env after).
        init: the assignments before the loop.  step: the loop test (walrus targets land in env) and, if it holds, the
        body once; '__continue__' tells which.  exit: the value of the `return` behind the loop as '__return__'.
        Exceptions raised by the real statements propagate to the harness."""
        import ast as _ast
        from . import slices
        module, qualname, case_value, part, env0 = a[0], a[1], a[2], a[3], a[4]
        m = it.import_module(module)
        with open(it.sources[module]) as f:
            tree = _ast.parse(f.read())
        try:
            pre, loop, post = slices.loop_parts(tree, qualname, case_value, k.get("nth", 0))
        except slices.SliceMismatch as e:
            raise Unsupported("harness does not match the source: %s" % e)
        vars_ = {kk: vv for kk, vv in it.dict_items(env0)}
        env = Env(vars_, None, m.ns)
        out = DictV()
        try:
            if part == "names":
                info = slices.loop_names(pre, loop, post, list(m.ns))
                for kk, vv in info.items():
                    it.dict_set(out, "__%s__" % kk, list(vv))
            elif part == "init":
                for st in pre:
                    it.exec_stmt(st, env)
            elif part == "step":
                c = it.eval(loop.test, env)
                go = ops.truth(it, c, "loop-test@%d" % loop.lineno)
                if go:
                    for st in loop.body:
                        it.exec_stmt(st, env)
                it.dict_set(out, "__continue__", bool(go))
            elif part == "exit":
                it.dict_set(out, "__return__", it.eval(post[0].value, env))
            else:
                raise Unsupported("run_loop_part: unknown part %r" % (part,))
        except PyRaise as e:
            cn = getattr(getattr(e, "exc", None), "cls", None)
            cn = getattr(cn, "qualname", "") or getattr(cn, "name", "")
            if cn.split(".")[-1] in ("NameError", "AttributeError", "UnboundLocalError", "TypeError", "KeyError"):
                # the statements need context of the enclosing function that the harness does not supply
                raise Unsupported("harness does not match the source: loop part `%s` needs context the harness does not supply (%s)" % (part, cn))
            raise
        for kk, vv in vars_.items():
            it.dict_set(out, kk, vv)
        return out

    @reg("sym_str")
    def sym_str(it_, a, k):
        """an arbitrary string of unknown length, opaque to the solver: equal to itself, nothing else is known about it"""
        it.path.notes.setdefault("inputs", {})[a[0]] = ("int", 0, 10 ** 6)
        return SymStr([("opaque", ir.var(a[0], 0, 10 ** 6))])

    @reg("require")
    def require(it_, a, k):
        what, cond = a
        t = ops.truth(it, cond, "require")
        if not t:
            raise Unsupported("harness does not match the source: %s" % (what,))
        return None

    @reg("all_of")
    def all_of(it_, a, k):
        return it.b_all(a, k)

    @reg("stub")
    def stub(it_, a, k):
        cls, meth, fn = a
        m, _ = cls.lookup(meth)
        owner = getattr(m, "owner", None) or cls        # an inherited method is replaced where it is defined
        it.stubs[(owner.qualname, meth)] = fn
        return None

    @reg("unstub")
    def unstub(it_, a, k):
        cls, meth = a
        m, _ = cls.lookup(meth)
        owner = getattr(m, "owner", None) or cls
        it.stubs.pop((owner.qualname, meth), None)
        return None

    # ---------------------------------------------------------------- heap snapshots
    from .fields import Seen, baseline

    def snap(v, seen, ignore):
        if isinstance(v, Obj):
            r = seen.ref(v.oid)
            if r is not None:
                return ("ref", r)
            idx = seen.new(v.oid)
            if v.cls.is_enum:
                return ("enum", v.cls.qualname, v.fields.get("name"))
            flds = {}
            pkg = v.cls.qualname.startswith("architecture_simulator")
            for f, x in v.fields.items():
                if f in ignore:
                    continue
                if pkg and f not in baseline():
                    # an attribute the contracts do not model: snapshotted in an object numbering of its own, so that
                    # what hangs below it cannot shift the numbering of the modelled heap
                    seen.depth_u += 1
                    try:
                        flds[f] = snap(x, seen, ignore)
                    finally:
                        seen.depth_u -= 1
                else:
                    flds[f] = snap(x, seen, ignore)
            items = [snap(x, seen, ignore) for x in v.items] if v.items is not None else None
            return ("obj", v.cls.qualname, idx, flds, items)
        if isinstance(v, LogList):
            return ("tuple", [snap(x, seen, ignore) for x in it.iterate(v)])
        if isinstance(v, list):
            r = seen.ref(id(v))
            if r is not None:
                return ("ref", r)
            idx = seen.new(id(v))
            return ("list", idx, [snap(x, seen, ignore) for x in v])
        if isinstance(v, tuple):
            return ("tuple", [snap(x, seen, ignore) for x in v])
        if isinstance(v, DictV):
            r = seen.ref(id(v))
            if r is not None:
                return ("ref", r)
            seen.new(id(v))
            c = it.dm_copy(v, [], {})
            if not c.sym and c.base is None:
                c.entries = [[kk, snap(vv, seen, ignore)] for kk, vv in c.entries]
            return ("dict", seen.ref(id(v)), c)
        if isinstance(v, (set, frozenset)):
            return ("set", frozenset(v) if all(not isinstance(x, (Obj,)) for x in v) else tuple(id(x) for x in v))
        if isinstance(v, (ClassV, FuncV, Builtin, BoundMethod, ModuleV, FixedType, TypingDummy)):
            return ("id", id(v) if not isinstance(v, BoundMethod) else (id(v.func), id(v.self_)))
        return ("val", v)

    @reg("snapshot")
    def snapshot(it_, a, k):
        ignore = set(k.get("ignore", ()))
        seen = Seen()
        return Snap(tuple(snap(x, seen, ignore) for x in a))

    def diff(x, y, path, out):
        """Appends (path, Term) for every leaf; Term FALSE on shape mismatch."""
        if x[0] != y[0]:
            out.append((path, ir.FALSE))
            return
        tag = x[0]
        if tag == "val":
            e = ops.py_eq(it, x[1], y[1])
            if type(x[1]) is not type(y[1]) and not (ops.is_numeric(x[1]) and ops.is_numeric(y[1])) \
                    and not (isinstance(x[1], (str, SymStr)) and isinstance(y[1], (str, SymStr))):
                e = False
            # bool vs int distinction (True == 1 in Python, but a changed type is a change)
            out.append((path, ir.lift(e) if isinstance(e, bool) else e.t))
        elif tag == "ref":
            out.append((path, ir.bconst(x[1] == y[1])))
        elif tag == "id" or tag == "set":
            out.append((path, ir.bconst(x[1] == y[1])))
        elif tag == "enum":
            out.append((path, ir.bconst(x[1:] == y[1:])))
        elif tag == "obj":
            if x[1] != y[1] or x[2] != y[2] or (x[4] is None) != (y[4] is None):
                out.append((path, ir.FALSE))
                return
            for f in sorted(set(x[3]) ^ set(y[3])):
                out.append((path + "." + f, ir.FALSE))          # attribute present on one side only: named, so that it can be classified
            for f in x[3]:
                if f in y[3]:
                    diff(x[3][f], y[3][f], path + "." + f, out)
            if x[4] is not None:
                if len(x[4]) != len(y[4]):
                    out.append((path + "[]", ir.FALSE))
                    return
                for i, (p, q) in enumerate(zip(x[4], y[4])):
                    diff(p, q, "%s[%d]" % (path, i), out)
        elif tag == "list" or tag == "tuple":
            xs, ys = x[-1], y[-1]
            if len(xs) != len(ys) or (tag == "list" and x[1] != y[1]):
                out.append((path, ir.FALSE))
                return
            for i, (p, q) in enumerate(zip(xs, ys)):
                diff(p, q, "%s[%d]" % (path, i), out)
        elif tag == "dict":
            if x[1] != y[1]:
                out.append((path, ir.FALSE))
                return
            dx, dy = x[2], y[2]
            if not dx.sym and dx.base is None and not dy.sym and dy.base is None:
                if list(dx.index) != list(dy.index):
                    out.append((path + ".keys", ir.FALSE))
                    return
                for (kk, p), (_, q) in zip(dx.entries, dy.entries):
                    diff(p, q, "%s[%r]" % (path, kk), out)
            else:
                if (dx.base.name if dx.base else None) != (dy.base.name if dy.base else None):
                    out.append((path + ".base", ir.FALSE))
                    return
                kv = SInt(it.fresh_var("k"))
                px, vx = it.dict_lookup(dx, kv)
                py, vy = it.dict_lookup(dy, kv)
                out.append((path + ".keys", ir.beq(px, py)))
                if vx is not None and vy is not None:
                    e = ops.py_eq(it, vx, vy)
                    out.append((path + ".values", ir.implies(px, ir.lift(e) if isinstance(e, bool) else e.t)))
        else:
            raise Unsupported("snapshot tag " + tag)

    @reg("same")
    def same(it_, a, k):
        out = []
        diff(("tuple", list(a[0].tree)), ("tuple", list(a[1].tree)), "", out)
        return ops.from_term(ir.conj(t for _, t in out))

    @reg("check_same")
    def check_same(it_, a, k):
        """check_same(name, snap_before, snap_after): one obligation per leaf that is not syntactically equal."""
        name = a[0]
        out = []
        diff(("tuple", list(a[1].tree)), ("tuple", list(a[2].tree)), "", out)
        n = 0
        for p, t in out:
            if t.op == "bconst" and ir.cval(t):
                continue
            it.path.checks.append(("%s@%s" % (name, p), t, list(it.path.pc)))
            n += 1
        if n == 0:
            it.path.checks.append((name, ir.TRUE, list(it.path.pc)))
        return None

    m = ModuleV("pyvc.api", ns)
    return m
