"""Entry point: ./check <ID> [--tier quick|thorough] | --replay <file> | --list"""
from __future__ import annotations
import argparse
import json
import os
import re
import sys
import time
import importlib

VERIF = os.path.dirname(os.path.dirname(os.path.abspath(__file__)))
if VERIF not in sys.path:
    sys.path.insert(0, VERIF)

from pyvc import runner, fields  # noqa: E402
from pyvc.registry import PROPERTIES, COMMON_ASSUMPTIONS  # noqa: E402


def load_known():
    p = os.path.join(VERIF, "known_findings.json")
    if not os.path.exists(p):
        return []
    with open(p) as f:
        return json.load(f).get("findings", [])


def known_match(known, prop, unit, obligation):
    for k in known:
        if k.get("status") != "known" or k.get("property") != prop:
            continue
        if re.search(k["unit"], unit) and re.search(k.get("obligation", ".*"), obligation):
            return k
    return None


def sanitize(s):
    return re.sub(r"[^A-Za-z0-9_.=-]+", "_", s)[:150]


def scan_contract_assumptions(modules):
    """Mechanical scan for escape hatches in the contract sources."""
    found = []
    for m in modules:
        p = os.path.join(VERIF, m.replace(".", "/") + ".py")
        if not os.path.exists(p):
            continue
        for i, line in enumerate(open(p), 1):
            s = line.strip()
            if s.startswith("#"):
                continue
            if re.search(r"\b(assume|stub)\(", s):
                found.append("%s:%d: %s" % (m, i, s[:140]))
    return found


def main(argv=None):
    ap = argparse.ArgumentParser()
    ap.add_argument("prop", nargs="?")
    ap.add_argument("--tier", default=os.environ.get("VERIF_TIER", "quick"), choices=["quick", "thorough"])
    ap.add_argument("--replay")
    ap.add_argument("--list", action="store_true")
    ap.add_argument("--unit", help="regex: only run matching units (diagnostic; evidence is not written)")
    ap.add_argument("--procs", type=int, default=0)
    ap.add_argument("-v", action="store_true")
    a = ap.parse_args(argv)
    seed = int(os.environ.get("VERIF_SEED", "0") or 0)

    if a.replay:
        return do_replay(a.replay)
    if a.list:
        for pid, spec in PROPERTIES.items():
            print(pid, spec["modules"])
        return 0
    pid = a.prop
    if pid not in PROPERTIES:
        print("unknown property", pid)
        return 3
    spec = PROPERTIES[pid]
    tier = a.tier
    t0 = time.time()
    timeout_ms = 20000 if tier == "quick" else 60000
    known = load_known()

    # ---------------------------------------------------------------- collect units
    jobs = []
    metas = {}
    try:
        for m in spec["modules"]:
            for name, meta in runner.list_units(m):
                if not name.startswith(pid + "/"):
                    continue
                if meta.get("tier") == "thorough" and tier != "thorough":
                    continue
                if a.unit and not re.search(a.unit, name):
                    continue
                if name in metas:
                    continue          # the same unit re-registered through an import of another contract module
                jobs.append((m, name))
                metas[name] = meta
    except Exception as e:
        import traceback
        print("".join(traceback.format_exc().splitlines(True)[-12:]))
        print("CHECKER-CRASH property=%s while loading contracts: %r" % (pid, e))
        return 3
    if not jobs and not spec.get("bounded"):
        print("CHECKER-CRASH property=%s: zero units" % pid)
        return 3

    results = runner.run_units(jobs, procs=a.procs or None, timeout_ms=timeout_ms, use_cvc5=(tier == "thorough"),
                               while_bound=spec.get("while_bound", 100),
                               unit_timeout_s=(600 if tier == "quick" else 3000)) if jobs else []

    # ---------------------------------------------------------------- classify
    n_ob = n_dis = 0
    n_bounded_ob = 0
    by_backend = {}
    solver_s = 0.0
    violations = []
    known_hits = []
    undecided = []
    unmodelled = []   # frame obligations that differ only at attributes the contracts do not model
    gaps = []
    crashes = []
    canaries_refuted = 0
    functions = set()
    samples = []
    paths = 0
    bounded_units = []
    for (mod, uname), r in zip(jobs, results):
        meta = metas[uname]
        paths += r.paths
        solver_s += r.solver_seconds
        for fn in r.functions:
            if fn[0].startswith("architecture_simulator"):
                functions.add("%s:%s%s" % (fn[0], (fn[1] + ".") if fn[1] else "", fn[2]))
        if r.status == "crash":
            crashes.append((uname, r.reason))
            continue
        if r.status == "undecided":
            undecided.append((uname, r.reason))
            continue
        if meta.get("canary"):
            ok = any(o.status == "refuted" and o.replay and o.replay.get("confirmed") for o in r.obligations)
            if ok:
                canaries_refuted += 1
            elif any(o.status not in ("proved", "refuted") for o in r.obligations):
                # the solver left the deliberately false contract open (budget, load): nothing is known, which is
                # not the same as the checker accepting it
                undecided.append((uname, "canary left undecided by the solver"))
            else:
                crashes.append((uname, "canary was not refuted: the checker would not notice a broken contract; " + repr([(o.name, o.status, (o.replay or {}).get("error"), (o.replay or {}).get("exception"), (o.replay or {}).get("assume_failed"), runner._model_json(o.model)) for o in r.obligations if o.status != "proved"][:3]) + " " + r.reason[-300:]))
            continue
        if not r.obligations:
            crashes.append((uname, "unit generated zero obligations (vacuous)"))
            continue
        missing = set(meta.get("expect_reach", ())) - r.reached
        n_vio_before = len(violations)
        if r.bounded:
            bounded_units.append(uname)
            if not meta.get("bounded"):
                undecided.append((uname, "a while-loop exceeded the unrolling bound on some path; nothing is claimed beyond it"))
        for o in r.obligations:
            full = "%s/%s" % (uname, o.name)
            if meta.get("bounded") and o.status == "proved":
                # a unit that declares a bound (e.g. strings of <= 6 bytes) is a bounded stand-in: its obligations are
                # reported separately and never counted as discharged proof obligations
                n_bounded_ob += 1
                continue
            n_ob += 1
            if o.status == "proved":
                n_dis += 1
                by_backend[o.backend] = by_backend.get(o.backend, 0) + 1
                if len(samples) < 4 and o.backend != "structural":
                    samples.append({"obligation": full, "backend": o.backend, "verdict": "proved", "seconds": round(o.seconds, 4)})
            elif o.status == "refuted":
                conf = bool(o.replay and o.replay.get("confirmed"))
                if not conf and meta.get("ghost"):
                    # obligation over ghost state / lemma over contracts: no native input exists by construction
                    conf = True
                    o.reason = (o.reason + " " if o.reason else "") + "no-failing-input-found"
                unm = fields.unmodelled(o.name) if conf else None
                if unm is not None:
                    # whole-heap frame obligation that differs only at an attribute the contracts do not model (a field
                    # added since they were written): the frame argument is incomplete, which is not evidence of a
                    # violation -- a correct memo field or debug counter changes the heap as well.  Left to the
                    # history-level bounded check of the property.
                    unmodelled.append((full, "frame differs at `.%s`, an attribute the contracts do not model; decided by the history-level bounded check" % unm))
                elif conf:
                    k = known_match(known, pid, uname, o.name)
                    if k is not None:
                        known_hits.append((k, full))
                        n_dis += 0
                    else:
                        violations.append((mod, uname, o))
                else:
                    gaps.append((full, (o.replay or {}).get("error") or "native run satisfies the contract under the solver's model"))
            else:
                undecided.append((full, o.reason or "solver unknown"))
        if missing and len(violations) == n_vio_before:
            # a reachability label that is never reached makes the contract (partly) vacuous; only a checker
            # problem if the unit did not report a violation explaining it
            crashes.append((uname, "vacuity guard: never reached %s" % sorted(missing)))

    # ---------------------------------------------------------------- bounded adjudication of everything undecided
    # (solver unknown, unsupported construct, engine gap): the same contract is evaluated natively on the real code
    # over pseudo-random + boundary inputs.  A native failure is a violation with a replayable input; a clean
    # search leaves the obligation undecided (never proved).
    adj_units = []
    for u, _ in undecided + gaps:
        un = u
        while un and un not in metas:
            un = un.rsplit("/", 1)[0] if "/" in un else ""
        if un and un not in [x[1] for x in adj_units] and not metas[un].get("canary") and not metas[un].get("ghost"):
            adj_units.append((dict((n, m) for m, n in jobs)[un], un))
    adj_evals = 0
    if adj_units:
        n_adj = 400 if tier == "quick" else 4000
        for (mod, un), (ne, fail) in zip(adj_units, runner.run_adjudications(adj_units, n_adj, seed, a.procs or None)):
            adj_evals += ne
            if fail is None:
                continue
            if "error" in fail:
                crashes.append((un, "bounded adjudication crashed: " + fail["error"]))
                continue
            o = runner.Obligation(un, fail["name"], 0)
            o.status, o.backend, o.model = "refuted", "bounded-native-search", fail["model"]
            o.reason = "found by the bounded native search that adjudicates undecided obligations"
            o.replay = {"confirmed": True, **fail["replay"]}
            k = known_match(known, pid, un, o.name)
            if k is not None:
                known_hits.append((k, un + "/" + o.name))
            else:
                violations.append((mod, un, o))

    # ---------------------------------------------------------------- sampled proof audit (A-ENGINE attack ii)
    # Units whose obligations were ALL proved are evaluated natively on the real code for a few pseudo-random +
    # boundary instances.  A native failure of a proved contract means the executor or a lowering is unsound:
    # the failing input is reported as a violation with its replay file (see below).
    audit_units = []
    for (mod, uname), r in zip(jobs, results):
        meta = metas[uname]
        if r.status == "ok" and r.obligations and all(o.status == "proved" for o in r.obligations) and not meta.get("canary") and not meta.get("ghost"):
            audit_units.append((mod, uname))
    audit_evals = 0
    if audit_units and not a.unit:
        import random as _random
        rr = _random.Random(seed + 99)
        cap = 160 if tier == "quick" else len(audit_units)
        if len(audit_units) > cap:
            audit_units = rr.sample(audit_units, cap)
        n_audit = 20 if tier == "quick" else 100
        for (mod, un), (ne, fail) in zip(audit_units, runner.run_adjudications(audit_units, n_audit, seed + 1, a.procs or None)):
            audit_evals += ne
            if fail is not None and "error" in fail:
                crashes.append((un, "proof audit crashed: " + fail["error"]))
            elif fail is not None:
                # every obligation of the unit was proved, yet the contract fails natively on the real code for this
                # input.  The proofs are modular (instruction execution is verified against the S-MEM contract object,
                # caches against the policy contracts): a native failure means a callee no longer implements the
                # contract it is assumed under -- or the executor is unsound.  Either way there is a failing input on
                # the real code, which is what a violation is; it is reported with its replay file.
                o = runner.Obligation(un, fail["name"], 0)
                o.status, o.backend, o.model = "refuted", "native-audit", fail["model"]
                o.reason = "all obligations of this unit are proved against the assumed contracts of its callees (S-MEM, policies), but the native run on the real code fails for this input: a callee breaks its assumed contract (or the executor is unsound)"
                o.replay = {"confirmed": True, **fail["replay"]}
                k = known_match(known, pid, un, o.name)
                if k is not None:
                    known_hits.append((k, "%s/%s" % (un, o.name)))
                else:
                    violations.append((mod, un, o))

    # ---------------------------------------------------------------- direct contract modules
    # Obligations that are not produced by the symbolic executor (regular-language inclusions, pyvc/reglang.py): the
    # module generates them from the tree under check, discharges them itself and replays every counter-example natively.
    direct_units = 0
    direct_notes = []
    if not a.unit or any(re.search(a.unit, "%s/direct/%s" % (pid, dm)) for dm in spec.get("direct", [])):
        for dm in spec.get("direct", []):
            try:
                if sys.path[0] != runner.REPO:
                    sys.path.insert(0, runner.REPO)
                if VERIF not in sys.path:
                    sys.path.insert(1, VERIF)
                dmod = importlib.import_module(dm)
                import architecture_simulator as _as
                if not os.path.realpath(_as.__file__).startswith(os.path.realpath(runner.REPO) + os.sep):
                    raise RuntimeError("direct module would read %s, not the tree under check (%s)" % (_as.__file__, runner.REPO))
                info = dmod.run(tier, seed, timeout_ms)
            except Exception:
                import traceback
                crashes.append(("direct:" + dm, traceback.format_exc()[-2000:]))
                continue
            if info.get("crash"):
                crashes.append(("direct:" + dm, info["crash"]))
                continue
            direct_units += info.get("units", 0)
            direct_notes.extend(info.get("notes", []))
            functions.update(info.get("functions", []))
            real = [o for o in info["obligations"] if not o.get("canary") and not o.get("bounded")]
            if not real:
                crashes.append(("direct:" + dm, "zero obligations (vacuous)"))
            for o in info["obligations"]:
                solver_s += o.get("seconds", 0.0)
                if o.get("canary"):
                    if o["status"] == "refuted" and (o.get("replay") or {}).get("confirmed"):
                        canaries_refuted += 1
                    elif o["status"] in ("proved", "refuted"):
                        crashes.append((o["name"], "canary was not refuted and replayed: the checker would not notice a broken contract"))
                    else:
                        undecided.append((o["name"], "canary left undecided by the solver"))
                    continue
                if o.get("bounded"):
                    n_bounded_ob += 1
                    continue
                n_ob += 1
                if o["status"] == "proved":
                    n_dis += 1
                    by_backend[o["backend"]] = by_backend.get(o["backend"], 0) + 1
                    if o["backend"] != "structural" and sum(1 for x in samples if x.get("backend", "").startswith("z3-seq")) < 2:
                        samples.append({"obligation": o["name"], "backend": o["backend"], "verdict": "proved", "seconds": round(o["seconds"], 4)})
                elif o["status"] == "refuted":
                    if (o.get("replay") or {}).get("confirmed"):
                        v = {"key": o["name"], "obligation": o["name"], "witness": o.get("witness"), "solver": {"backend": o["backend"], "verdict": "refuted", "seconds": o["seconds"]},
                             "native_replay": o["replay"], "what": o.get("reason", "")}
                        k = known_match(known, pid, dm, o["name"])
                        if k is not None:
                            known_hits.append((k, o["name"]))
                        else:
                            violations.append(("bounded", dm, v))
                    else:
                        gaps.append((o["name"], "counter-example %r does not replay natively: %s" % (o.get("witness"), o.get("reason", ""))))
                else:
                    undecided.append((o["name"], o.get("reason") or "solver unknown"))

    # ---------------------------------------------------------------- bounded stand-ins / extra native parts
    bounded_info = None
    if spec.get("bounded") and not a.unit:
        try:
            if sys.path[0] != runner.REPO:
                sys.path.insert(0, runner.REPO)
            bm = importlib.import_module(spec["bounded"])
            import architecture_simulator as _as
            if not os.path.realpath(_as.__file__).startswith(os.path.realpath(runner.REPO) + os.sep):
                raise RuntimeError("bounded module would exercise %s, not the tree under check (%s)" % (_as.__file__, runner.REPO))
            bounded_info = bm.run(tier, seed)
            for v in bounded_info.get("violations", []):
                k = None
                for kk in known:
                    if kk.get("status") == "known" and kk.get("property") == pid and kk.get("bounded_key") and kk["bounded_key"] == v.get("key"):
                        k = kk
                if k is not None:
                    known_hits.append((k, "bounded:" + v.get("key", "")))
                else:
                    violations.append(("bounded", spec["bounded"], v))
        except Exception as e:
            import traceback
            crashes.append(("bounded:" + spec["bounded"], traceback.format_exc()[-2000:]))

    # ---------------------------------------------------------------- report
    rc = 0
    replay_dir = os.path.join(VERIF, "replays", pid) if not os.environ.get("VERIF_NO_EVIDENCE") else os.path.join(runner.REPO if runner.REPO != "/repo" else "/tmp/verif_scratch", "_replays", pid)
    printed_known = set()
    for k, full in known_hits:
        key = k.get("id", k.get("what"))
        if key in printed_known:
            continue
        printed_known.add(key)
        print("KNOWN-FINDING: property=%s %s" % (pid, k["what"]))
    vio_paths = []
    seen_v = set()
    for item in violations:
        vk = (item[1], item[2].name) if item[0] != "bounded" else ("bounded", item[2].get("key"))
        if vk in seen_v:
            continue
        seen_v.add(vk)
        os.makedirs(replay_dir, exist_ok=True)
        if item[0] == "bounded":
            v = item[2]
            path = os.path.join(replay_dir, sanitize("bounded_" + v.get("key", "violation")) + ".json")
            with open(path, "w") as f:
                json.dump({**v, "property": pid, "kind": "bounded", "module": item[1]}, f, indent=1, default=str)
            print("VIOLATION property=%s replay=%s" % (pid, path))
        else:
            mod, uname, o = item
            path = os.path.join(replay_dir, sanitize(uname.split("/", 1)[1] + "__" + o.name) + ".json")
            with open(path, "w") as f:
                json.dump({"property": pid, "kind": "obligation", "module": mod, "unit": uname, "obligation": o.name,
                           "goal": o.goal_text, "solver": {"backend": o.backend, "verdict": o.status, "seconds": o.seconds, "reason": o.reason},
                           "model": runner._model_json(o.model), "native_replay": o.replay,
                           "how_to_replay": "./check --replay " + path}, f, indent=1, default=str)
            print("VIOLATION property=%s replay=%s%s" % (pid, path, " no-failing-input-found" if "no-failing-input-found" in (o.reason or "") else ""))
        vio_paths.append(path)
        rc = 1
    for u, why in crashes:
        print("CHECKER-CRASH property=%s unit=%s: %s" % (pid, u, why[-1500:]))
    if crashes and rc == 0:
        rc = 3
    if a.v or undecided or gaps or unmodelled:
        for u, why in undecided[:40]:
            print("UNDECIDED %s: %s" % (u, why[:300]))
        for u, why in unmodelled[:10]:
            print("UNDECIDED %s: %s" % (u, why[:300]))
        for u, why in gaps[:40]:
            print("ENGINE-GAP %s: %s" % (u, why[:300]))

    if a.v:
        for (mod, uname), r in sorted(zip(jobs, results), key=lambda z: -z[1].seconds)[:8]:
            print("SLOW %-70s %.1fs solver=%.1fs paths=%d feas=%d obligations=%d" % (uname, r.seconds, r.solver_seconds, r.paths, r.feas_calls, len(r.obligations)))
    wall = time.time() - t0
    level = spec["level"]
    cov = {
        "obligations": n_ob,
        "discharged": n_dis,
        "checker_cmd": "./check %s --tier %s" % (pid, tier),
        "trusted_base": spec.get("trusted_base", []) + ["z3 %s" % _z3v(), "CPython 3.12 ast module", "pyvc symbolic executor (A-ENGINE)"],
        "units": len(jobs) + direct_units,
        "paths": paths,
        "by_backend": by_backend,
        "solver_s": round(solver_s, 3),
        "slowest_obligation_s": round(max([o.seconds for r in results for o in r.obligations] or [0.0]), 3),
        "solver_timeout_s_per_obligation": timeout_ms / 1000.0,
        "functions_under_contract": sorted(functions),
        "undecided": [u for u, _ in undecided + unmodelled][:200],
        "engine_gaps": [u for u, _ in gaps][:50],
        "canaries_refuted": canaries_refuted,
        "bounded_units": bounded_units,
        "bounded_unit_obligations_not_counted": n_bounded_ob,
        "proof_audit": {"units_sampled": len(audit_units), "native_evaluations": audit_evals,
                        "note": "fully proved units re-evaluated natively on random+boundary instances; a failure is a checker crash"},
        "bounded_adjudication": {"units": [u for _, u in adj_units], "native_evaluations": adj_evals,
                                 "note": "undecided obligations are searched natively (pseudo-random + boundary inputs); never counted as discharged"},
        "known_findings": sorted(printed_known),
        "samples": samples or [{"note": "no solver-discharged obligation sampled"}],
        "explanation": spec.get("explanation", ""),
        "configs": spec.get("configs", {}).get(tier, spec.get("configs", {})) if isinstance(spec.get("configs"), dict) else spec.get("configs"),
    }
    if direct_notes:
        cov["direct_modules"] = {"modules": spec.get("direct", []), "notes": direct_notes}
    if bounded_info is not None:
        cov["bounded"] = {k: v for k, v in bounded_info.items() if k != "violations"}
        cov["evaluations"] = bounded_info.get("evaluations", 0)
        cov["distinct_nontrivial"] = bounded_info.get("distinct_nontrivial", 0)
        cov["rule"] = bounded_info.get("rule", "")
        if bounded_info.get("samples"):
            cov["samples"] = (samples + bounded_info["samples"])[:8]
    ev = {
        "property_id": pid,
        "tier": tier,
        "seed": seed,
        "level": level,
        "coverage": cov,
        "assumptions": COMMON_ASSUMPTIONS + spec.get("assumptions", []) + ["contract-scan: " + s for s in scan_contract_assumptions(spec["modules"])],
        "wall_s": round(wall, 2),
        "violations": len(violations),
    }
    if not a.unit and not os.environ.get("VERIF_NO_EVIDENCE"):
        os.makedirs(os.path.join(VERIF, "evidence"), exist_ok=True)
        with open(os.path.join(VERIF, "evidence", pid + ".json"), "w") as f:
            json.dump(ev, f, indent=1, default=str)
    print("%s tier=%s units=%d paths=%d obligations=%d discharged=%d undecided=%d gaps=%d known=%d violations=%d wall=%.1fs"
          % (pid, tier, len(jobs) + direct_units, paths, n_ob, n_dis, len(undecided) + len(unmodelled), len(gaps), len(printed_known), len(violations), wall))
    return rc


def _z3v():
    try:
        import z3
        return z3.get_version_string()
    except Exception:
        return "?"


def do_replay(path):
    with open(path) as f:
        j = json.load(f)
    if j.get("kind") == "bounded":
        if sys.path[0] != runner.REPO:
            sys.path.insert(0, runner.REPO)
        bm = importlib.import_module(j["module"])
        ok = bm.replay(j)
        print("replay:", "VIOLATION reproduced" if not ok else "holds now")
        return 1 if not ok else 0
    model = runner.model_from_json(j.get("model"))
    rep = runner.native_replay(j["module"], j["unit"], model)
    conf = runner.confirm(j["obligation"], rep)
    print(json.dumps(rep, indent=1, default=str))
    print("replay:", "VIOLATION reproduced on the real code" if conf else "contract holds natively for this input")
    return 1 if conf else 0


if __name__ == "__main__":
    sys.exit(main())
