#!/bin/sh
# usage: pyvc/seedcheck.sh <PROP> <worktree> [extra props to run]
# Confirms a seeded change (tests pass with it, demo fails with it / passes without), stores it under seeded/,
# and runs the property's check against the scratch worktree.
PROP=$1; WT=$2; shift 2; EXTRA="$@"
V=/verif
N=1; while [ -d $V/seeded/$PROP-$N ]; do N=$((N+1)); done
D=$V/seeded/$PROP-$N
mkdir -p $D
cp $WT/_seed/patch.diff $WT/_seed/demo.py $D/ 2>/dev/null
cp $WT/_seed/notes.md $D/ 2>/dev/null
cd $WT
# (no git stash here: the stash is shared by all worktrees of a repository, so concurrent runs would swap changes)
git checkout -q -- architecture_simulator; git apply _seed/patch.diff || { echo "patch does not apply"; exit 2; }
T_WITH=$(PYTHONPATH=$WT /venv/bin/python -m pytest -q -p no:cacheprovider --timeout=900 2>&1 | tail -1)
PYTHONPATH=$WT /venv/bin/python _seed/demo.py > $D/demo_with.txt 2>&1; RC_WITH=$?
git apply -R _seed/patch.diff
PYTHONPATH=$WT /venv/bin/python _seed/demo.py > $D/demo_without.txt 2>&1; RC_WITHOUT=$?
git apply _seed/patch.diff
echo "tests_with_change: $T_WITH"; echo "demo rc with=$RC_WITH without=$RC_WITHOUT"
# the checks are pointed at the scratch worktree that carries the change (VERIF_REPO); /repo itself is not touched, so
# a long-running check of the unchanged tree is not disturbed
RES=""
for P in $PROP $EXTRA; do
  OUT=$(cd $V && VERIF_REPO=$WT VERIF_NO_EVIDENCE=1 timeout 3000 ./check $P 2>&1 | grep -E "^(VIOLATION|KNOWN|CHECKER-CRASH|$P tier)" | head -6)
  echo "--- check $P"; echo "$OUT"
  RES="$RES
[$P] $OUT"
done
rm -rf $WT/_replays
python3 - "$D" "$PROP" "$T_WITH" "$RC_WITH" "$RC_WITHOUT" "$RES" <<'PY'
import json,sys
d,prop,t,rw,rwo,res=sys.argv[1:7]
notes=open(d+'/notes.md').read() if __import__('os').path.exists(d+'/notes.md') else ''
json.dump({"property":prop,"origin":"independent sub-agent given only the property text and a scratch worktree","needs_to_manifest":notes[:1500],
 "confirmed":{"existing_tests_with_change":t,"demo_exit_with_change":int(rw),"demo_exit_without_change":int(rwo)},
 "ran":"pyvc/seedcheck.sh: pytest in the scratch worktree with the change; demo.py with and without (git apply -R); ./check with VERIF_REPO=<scratch worktree carrying the change> (rounds 1-4: git -C /repo apply patch.diff; ./check; git -C /repo checkout -- .)",
 "check_output":res.strip().splitlines()[:14]}, open(d+'/meta.json','w'), indent=1)
PY
echo "stored in $D"
