"""Regular-language obligations for number literals (C15).

The assemblers tokenise with pyparsing and convert the number tokens later with int(tok, base).  The property
needs: every token a literal pattern can yield is in the domain of the conversion that consumes it, so that the
conversion never escapes as a bare ValueError.  Both sides are read from the tree under check on every run:

* the *pattern* is the live pyparsing element of the real parser class (imported from the tree), translated
  structurally into a z3 sequence constraint over the token text (`member`);
* the *conversion site* is found in the AST of the parser source (`find_sites`), with its base; helper methods
  such as `ToyParser._value_to_int` are executed symbolically over z3 strings, path by path (`helper_paths`).

The domain of CPython's int(str, base) is written once (`dom_int`), restricted to the alphabet the patterns can
produce (no underscores, no blanks; an alphabet obligation is generated for every pattern), and cross-checked
against the real int() on every run (bounded; `crosscheck_dom`).
Anything outside the translated subset raises Unsupported: the obligation is then UNDECIDED, never a violation.
"""
import ast
import itertools
import sys
import time

import z3


class Unsupported(Exception):
    pass


MAX_STR_DIGITS = sys.get_int_max_str_digits() if hasattr(sys, "get_int_max_str_digits") else 0


def _chars(cs):
    cs = sorted(set(cs))
    if not cs:
        raise Unsupported("empty character set")
    # contiguous runs become ranges
    runs = []
    a = b = cs[0]
    for c in cs[1:]:
        if ord(c) == ord(b) + 1:
            b = c
        else:
            runs.append((a, b))
            a = b = c
    runs.append((a, b))
    rs = [z3.Range(x, y) if x != y else z3.Re(x) for x, y in runs]
    return rs[0] if len(rs) == 1 else z3.Union(*rs)


_D = lambda: z3.Range("0", "9")
_SIGN = lambda: z3.Option(z3.Union(z3.Re("+"), z3.Re("-")))


def _signed(s):
    return z3.Or(z3.PrefixOf(z3.StringVal("-"), s), z3.PrefixOf(z3.StringVal("+"), s))


def _limit(s):
    if not MAX_STR_DIGITS:
        return z3.BoolVal(True)
    return z3.Length(s) - z3.If(_signed(s), 1, 0) <= MAX_STR_DIGITS


def dom_int(s, base):
    """s in dom(int(., base)) for strings over [+-0-9a-zA-Z] (no '_' and no white space)."""
    hexd = z3.Union(_D(), z3.Range("a", "f"), z3.Range("A", "F"))
    bind = z3.Union(z3.Re("0"), z3.Re("1"))
    octd = z3.Range("0", "7")
    pre = lambda a, b: z3.Concat(z3.Re("0"), z3.Union(z3.Re(a), z3.Re(b)))
    if base == 10:
        return z3.And(z3.InRe(s, z3.Concat(_SIGN(), z3.Plus(_D()))), _limit(s))
    if base == 0:
        dec = z3.Union(z3.Plus(z3.Re("0")), z3.Concat(z3.Range("1", "9"), z3.Star(_D())))
        shape = z3.Concat(_SIGN(), z3.Union(z3.Concat(pre("x", "X"), z3.Plus(hexd)), z3.Concat(pre("b", "B"), z3.Plus(bind)),
                                             z3.Concat(pre("o", "O"), z3.Plus(octd)), dec))
        return z3.And(z3.InRe(s, shape), z3.Implies(z3.InRe(s, z3.Concat(_SIGN(), dec)), _limit(s)))
    if base == 16:
        return z3.InRe(s, z3.Concat(_SIGN(), z3.Option(pre("x", "X")), z3.Plus(hexd)))
    if base == 2:
        return z3.InRe(s, z3.Concat(_SIGN(), z3.Option(pre("b", "B")), z3.Plus(bind)))
    if base == 8:
        return z3.InRe(s, z3.Concat(_SIGN(), z3.Option(pre("o", "O")), z3.Plus(octd)))
    raise Unsupported("int() base %r" % (base,))


ALPHABET = "+-0123456789abcdefghijklmnopqrstuvwxyzABCDEFGHIJKLMNOPQRSTUVWXYZ"


def in_alphabet(s):
    return z3.InRe(s, z3.Star(_chars(ALPHABET)))


def crosscheck_dom(seed=0, n_random=4000, max_len=3):
    """dom_int against the real int() (bounded): all strings up to length 4 over a literal alphabet, random longer
    ones, and the digit-limit boundary.  Returns (evaluations, first mismatch or None)."""
    import random
    rnd = random.Random(seed)
    alpha = "+-01289afFxXbBoOgG"
    cands = [""]
    for n in range(1, max_len + 1):
        cands += ["".join(t) for t in itertools.product(alpha, repeat=n)]
    for _ in range(n_random):
        cands.append("".join(rnd.choice(alpha) for _ in range(rnd.randint(5, 12))))
    if MAX_STR_DIGITS:
        for d in ("1", "0", "9"):
            for n in (MAX_STR_DIGITS - 1, MAX_STR_DIGITS, MAX_STR_DIGITS + 1):
                cands += [d * n, "-" + d * n, "0x" + d * n, "0b" + "1" * n]
    sv = z3.String("s")
    n = 0
    for base in (0, 10, 16, 2):
        f = dom_int(sv, base)
        for c in cands:
            try:
                int(c, base)
                real = True
            except ValueError:
                real = False
            got = z3.is_true(z3.simplify(z3.substitute(f, (sv, z3.StringVal(c)))))
            n += 1
            if got != real:
                return n, {"string": c if len(c) < 60 else c[:20] + "...(%d chars)" % len(c), "base": base, "int_accepts": real, "dom_int": got}
    return n, None


# ----------------------------------------------------------------------------- pyparsing element -> constraint

class Ctx:
    def __init__(self, repo_condition_base):
        self.n = 0
        self.repo_condition_base = repo_condition_base   # callable(parse_action) -> base | None | raises Unsupported
        self.conditions = []                             # descriptions of the conditions that were modelled

    def fresh(self):
        self.n += 1
        return z3.String("t%d" % self.n)


def member(elem, s, ctx):
    """z3 Bool: the token text `s` can be produced by pyparsing element `elem` (over-approximation of MatchFirst
    ordering; exact otherwise for the element kinds handled)."""
    import pyparsing as pp
    t = type(elem).__name__
    if isinstance(elem, pp.Suppress):
        body = s == z3.StringVal("")
    elif isinstance(elem, (pp.Literal,)) and t in ("Literal", "_SingleCharLiteral"):
        body = s == z3.StringVal(elem.match)
    elif isinstance(elem, pp.Word):
        if getattr(elem, "minLen", 1) != 1 or getattr(elem, "maxLen", 0) < 2 ** 31 or getattr(elem, "asKeyword", False) or getattr(elem, "as_keyword", False):
            raise Unsupported("Word with length limits / keyword mode")
        body = z3.InRe(s, z3.Concat(_chars(elem.initChars), z3.Star(_chars(elem.bodyChars))))
    elif isinstance(elem, pp.Regex):
        import re
        if elem.re.flags & re.IGNORECASE:
            raise Unsupported("case-insensitive Regex")
        alts = elem.pattern.split("|")
        lits = []
        for a in alts:
            u = re.sub(r"\\(.)", r"\1", a)
            if re.escape(u) != a and u != a:
                raise Unsupported("Regex that is not an alternation of literals: %r" % elem.pattern[:40])
            if any(ch in u for ch in "[](){}*+?.^$") and re.escape(u) != a:
                raise Unsupported("Regex that is not an alternation of literals: %r" % elem.pattern[:40])
            lits.append(u)
        body = z3.Or(*[s == z3.StringVal(u) for u in lits])
    elif isinstance(elem, pp.Combine):
        if not elem.adjacent:
            raise Unsupported("Combine(adjacent=False)")
        body = member(elem.expr, s, ctx)
    elif isinstance(elem, pp.And):
        parts = [ctx.fresh() for _ in elem.exprs]
        body = z3.And(s == (z3.Concat(*parts) if len(parts) > 1 else parts[0]), *[member(e, p, ctx) for e, p in zip(elem.exprs, parts)])
    elif isinstance(elem, (pp.MatchFirst, pp.Or)):
        body = z3.Or(*[member(e, s, ctx) for e in elem.exprs])
    elif isinstance(elem, pp.Opt):
        body = z3.Or(s == z3.StringVal(""), member(elem.expr, s, ctx))
    else:
        raise Unsupported("pyparsing element %s" % t)
    for pa in getattr(elem, "parseAction", []) or []:
        base = ctx.repo_condition_base(pa)
        if base is None:
            raise Unsupported("parse action that is not the repository's literal condition")
        ctx.conditions.append(base)
        body = z3.And(body, dom_int(s, base))
    return body


def walk_elements(root, seen=None):
    """every pyparsing element reachable from root"""
    seen = seen if seen is not None else {}
    if id(root) in seen:
        return seen
    seen[id(root)] = root
    for sub in list(getattr(root, "exprs", []) or []):
        walk_elements(sub, seen)
    for attr in ("expr", "content"):
        sub = getattr(root, attr, None)
        if sub is not None and hasattr(sub, "parseImpl"):
            walk_elements(sub, seen)
    return seen


def named_elements(cls, name):
    import pyparsing as pp
    out = {}
    for k, v in vars(cls).items():
        if isinstance(v, pp.ParserElement):
            for e in walk_elements(v).values():
                if e.resultsName == name:
                    out.setdefault(str(e) + repr([id(type(e))]), e)
    return list(out.values())


# ----------------------------------------------------------------------------- conversion sites from the AST

def _const_base(call):
    b = None
    if len(call.args) >= 2:
        b = call.args[1]
    for kw in call.keywords:
        if kw.arg == "base":
            b = kw.value
    if b is None:
        return 10
    if isinstance(b, ast.Constant) and isinstance(b.value, int):
        return b.value
    return ("expr", ast.unparse(b))


def _token_name(e):
    """result name a token expression reads, or None"""
    if isinstance(e, ast.Attribute):
        return e.attr
    if isinstance(e, ast.Call) and isinstance(e.func, ast.Attribute) and e.func.attr == "get" and e.args and isinstance(e.args[0], ast.Constant) and isinstance(e.args[0].value, str):
        return e.args[0].value
    return None


def find_sites(src, class_name, helper_names=(), nontoken_texts=()):
    """All int(...) conversions (and calls of the named helper methods) inside class `class_name`.
    Returns list of dicts: func, lineno, text, kind in {token, elements, regnum, nontoken, unknown}, name, base."""
    tree = ast.parse(src)
    cls = next(n for n in ast.walk(tree) if isinstance(n, ast.ClassDef) and n.name == class_name)
    sites = []
    for fn in [n for n in cls.body if isinstance(n, ast.FunctionDef)]:
        parents = {}
        for p in ast.walk(fn):
            for c in ast.iter_child_nodes(p):
                parents[c] = p

        def loop_source(name, at):
            # `for name in <token expr>` enclosing the site, one level of `x = <token expr>` followed
            p = at
            while p in parents:
                p = parents[p]
                if isinstance(p, ast.For) and isinstance(p.target, ast.Name) and p.target.id == name:
                    it = p.iter
                    if isinstance(it, ast.Name):
                        for a in ast.walk(fn):
                            if isinstance(a, ast.Assign) and len(a.targets) == 1 and isinstance(a.targets[0], ast.Name) and a.targets[0].id == it.id:
                                it = a.value
                                break
                    return _token_name(it)
            return None

        for call in [n for n in ast.walk(fn) if isinstance(n, ast.Call)]:
            is_int = isinstance(call.func, ast.Name) and call.func.id == "int"
            is_helper = isinstance(call.func, ast.Attribute) and call.func.attr in helper_names and isinstance(call.func.value, ast.Name) and call.func.value.id == "self"
            if not (is_int or is_helper) or not call.args:
                continue
            if is_int and fn.name in helper_names:
                continue      # the helper's own conversions are reached through its call sites
            arg = _inline_locals(call.args[0], fn)
            site = {"func": fn.name, "lineno": call.lineno, "text": ast.unparse(call), "helper": call.func.attr if is_helper else None,
                    "base": _const_base(call) if is_int else None}
            if isinstance(arg, ast.Call) and not _token_name(arg):
                site["kind"] = "nontoken"          # int(fixedint.UInt32(...)), int(instr): not a string conversion
            elif isinstance(arg, ast.Name):
                src_name = loop_source(arg.id, call)
                if src_name:
                    site["kind"], site["name"] = "elements", src_name
                else:
                    site["kind"] = "unknown"
            elif isinstance(arg, ast.Subscript) and isinstance(arg.value, ast.Subscript):
                site["kind"], site["name"] = "regnum", ast.unparse(arg)
            elif _token_name(arg):
                site["kind"], site["name"] = "token", _token_name(arg)
            else:
                site["kind"] = "unknown"
            if site["kind"] == "unknown" and site["text"] in nontoken_texts:
                site["kind"] = "nontoken"       # listed by the contract: the argument is an object with __int__, not a token
            sites.append(site)
    return sites


def _inline_locals(e, fn, depth=2):
    """names that the function assigns exactly once, by a plain `name = <expr>`, are replaced by that expression
    (`first = parsed_register[0]; int(first[1])` reads like `int(parsed_register[0][1])`)"""
    if depth == 0:
        return e
    assigns = {}
    for n in ast.walk(fn):
        if isinstance(n, ast.Assign) and len(n.targets) == 1 and isinstance(n.targets[0], ast.Name):
            assigns.setdefault(n.targets[0].id, []).append(n.value)
        elif isinstance(n, (ast.AugAssign, ast.AnnAssign, ast.For, ast.NamedExpr)):
            for t in ast.walk(n.target if not isinstance(n, ast.NamedExpr) else n.target):
                if isinstance(t, ast.Name):
                    assigns.setdefault(t.id, []).extend([None, None])
    params = {a.arg for a in fn.args.args}

    class Sub(ast.NodeTransformer):
        def visit_Name(self, node):
            v = assigns.get(node.id)
            if isinstance(node.ctx, ast.Load) and node.id not in params and v is not None and len(v) == 1 and v[0] is not None:
                return _inline_locals(v[0], fn, depth - 1)
            return node
    import copy
    return ast.fix_missing_locations(Sub().visit(copy.deepcopy(e)))


def helper_paths(src, class_name, helper, s):
    """Symbolic execution of a small string->int helper over the z3 string s.
    Returns list of (path condition, conversions [(string term, base)]) -- one entry per path."""
    tree = ast.parse(src)
    cls = next(n for n in ast.walk(tree) if isinstance(n, ast.ClassDef) and n.name == class_name)
    fn = next(n for n in cls.body if isinstance(n, ast.FunctionDef) and n.name == helper)
    params = [a.arg for a in fn.args.args if a.arg != "self"]
    if len(params) != 1:
        raise Unsupported("helper with %d parameters" % len(params))
    pname = params[0]
    side = []
    side_n = [0]

    def sexpr(e):
        if isinstance(e, ast.Name) and e.id == pname:
            return s
        if isinstance(e, ast.Subscript) and isinstance(e.slice, ast.Slice) and e.slice.upper is None and e.slice.step is None and isinstance(e.slice.lower, ast.Constant) and isinstance(e.slice.lower.value, int) and e.slice.lower.value >= 0:
            b = sexpr(e.value)
            k = e.slice.lower.value
            # b[k:] as a fresh suffix r with b = p ++ r, |p| = k (or r = "" when b is shorter than k, like Python);
            # the defining constraint joins every path condition (z3 decides this form, not SubString under a regex)
            side_n[0] += 1
            p_, r_ = z3.String("hp%d" % side_n[0]), z3.String("hr%d" % side_n[0])
            side.append(z3.Or(z3.And(b == z3.Concat(p_, r_), z3.Length(p_) == k), z3.And(z3.Length(b) < k, r_ == z3.StringVal(""))))
            return r_
        raise Unsupported("string expression " + ast.unparse(e))

    def bexpr(e):
        if isinstance(e, ast.Call) and isinstance(e.func, ast.Attribute) and e.func.attr == "startswith" and len(e.args) == 1 and isinstance(e.args[0], ast.Constant) and isinstance(e.args[0].value, str):
            return z3.PrefixOf(z3.StringVal(e.args[0].value), sexpr(e.func.value))
        if isinstance(e, ast.UnaryOp) and isinstance(e.op, ast.Not):
            return z3.Not(bexpr(e.operand))
        raise Unsupported("condition " + ast.unparse(e))

    def conv(e):
        if isinstance(e, ast.Call) and isinstance(e.func, ast.Name) and e.func.id == "int" and e.args:
            b = _const_base(e)
            if not isinstance(b, int):
                raise Unsupported("non-constant base")
            return [(sexpr(e.args[0]), b)]
        raise Unsupported("return expression " + ast.unparse(e))

    out = []

    def block(stmts, pc):
        for i, st in enumerate(stmts):
            if isinstance(st, ast.Expr) and isinstance(st.value, ast.Constant):
                continue
            if isinstance(st, ast.Return):
                out.append((pc, conv(st.value)))
                return
            if isinstance(st, ast.If):
                c = bexpr(st.test)
                block(list(st.body) + stmts[i + 1:], pc + [c])
                block(list(st.orelse) + stmts[i + 1:], pc + [z3.Not(c)])
                return
            raise Unsupported("statement " + type(st).__name__)
        raise Unsupported("helper may fall off its end")

    block(list(fn.body), [])
    return [(pc + side, convs) for pc, convs in out]


# ----------------------------------------------------------------------------- solving

def decide(pre, goal, s, timeout_ms):
    """pre => goal for all strings?  Returns (status, witness, seconds, backend)."""
    so = z3.Solver()
    so.set("timeout", int(timeout_ms))
    so.add(*pre)
    so.add(z3.Not(goal))
    t0 = time.time()
    r = so.check()
    dt = time.time() - t0
    if r == z3.unsat:
        return "proved", None, dt, "z3-seq"
    if r == z3.sat:
        w = so.model().eval(s, model_completion=True)
        return "refuted", w.as_string(), dt, "z3-seq"
    # (A or B) => G  iff  A => G and B => G: split the top-level alternatives of the pattern (MatchFirst / Or)
    if pre and z3.is_or(pre[0]):
        worst, total = "proved", dt
        for alt in pre[0].children():
            st, w, d, _ = decide([alt] + list(pre[1:]), goal, s, timeout_ms)
            total += d
            if st == "refuted":
                return "refuted", w, total, "z3-seq(split)"
            if st != "proved":
                worst = "unknown"
        return worst, None, total, "z3-seq(split)"
    return "unknown", None, dt, "z3-seq"


def satisfiable(pre, timeout_ms):
    so = z3.Solver()
    so.set("timeout", int(timeout_ms))
    so.add(*pre)
    return so.check() == z3.sat
