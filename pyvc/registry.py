"""Which contract modules decide which property, the claimed level, and standing assumptions."""

COMMON_ASSUMPTIONS = [
    "A-INT: Python ints are mathematical integers; // and >> floor, % takes the divisor's sign, & | ^ ~ act on the infinite two's-complement extension (encoded exactly)",
    "A-BOOL: bool is an int subclass",
    "A-ORDER: left-to-right evaluation, dict insertion order, exception propagation by class hierarchy",
    "A-FIXEDINT (trusted dependency model, cross-checked against the installed package on every run of C00-selftest): T(v) rectifies; binary operators use the C conversion rule of _arith_convert; comparisons/int()/bool() act on the value; x[a:b] = UInt_{b-a}(int(x) >> a)",
    "A-BUILTIN: str(int), format(int,'X'|'b'|'0Nb'|'0NX'), bin, chr, list.remove/append/index, dict get/set/in, sorted on ints behave as documented",
    "A-ENGINE: the symbolic executor (pyvc) implements Python's semantics for the subset it accepts; attacked by native replay of every counter-model, by canary units that must be refuted, and by the CPython differential self-test",
    "termination is not proved (partial correctness only)",
]

PROPERTIES = {
    "C18": {
        "modules": ["contracts.c18_memory"],
        "level": "proof",
        "explanation": "every Memory read/write method verified against the little-endian byte-map view for the two instantiations the simulator uses; unbounded histories by induction on the view",
        "trusted_base": ["fixedint 0.2.0 (model)"],
    },
    "C01": {
        "modules": ["contracts.c01_single"],
        "level": "proof",
        "explanation": "one unit per in-scope mnemonic (45 + 9 ecall codes): real RiscvSimulation.step in single-stage configuration vs the RV32IM reference on registers, data memory, pc, output, exit code, counters, fault reporting; all register numbers, contents, immediates, memory contents symbolic",
        "trusted_base": ["fixedint 0.2.0 (model)", "S-MEM (spec/smem.py) stands for state.memory; the flat Memory is proved to implement it in C18", "str(float) digits"],
        "while_bound": 8,
    },
    "C02": {
        "modules": ["contracts.c02_pipeline"],
        "level": "other",
        "explanation": "PROVED: (A) per mnemonic, the real five-stage step x5 on the one-instruction program equals the ISA reference on every listed component incl. redirect target and fault report, full operand space, symbolic pc; (B) programs of 4-5 instructions from producer/consumer templates with ALL register numbers and contents symbolic (every aliasing pattern => every RAW/WAW hazard at distance 1,2,3): real five-stage run == real single-cycle run; (C) wrong-path instructions behind taken branch/JAL/JALR/exit ecall have no effect; (D) faults report the same address with the same state. BOUNDED: arbitrary longer programs (run-time refinement contract over enumerated and random programs).",
        "trusted_base": ["S-MEM object for data memory (C18/C03)", "fixedint model"],
    },
    "C03": {
        "modules": ["contracts.cache"],
        "level": "proof",
        "explanation": "per enumerated geometry/policy: every public read/write of both cache systems on ANY well-formed cache state over ANY backing memory returns/updates the logical view exactly as S-MEM prescribes, rejects exactly word-crossing/out-of-range accesses without changing any stored value, and preserves wf_cache (inductive => all histories)",
        "configs": {"quick": "ib,bb,assoc in {(0,0,1),(1,0,1),(0,1,1),(0,0,2)} x {wb,wt} x {lru,plru}", "thorough": "quick + {(1,1,2),(1,0,2),(0,1,2),(0,0,4),(2,0,1),(0,2,1),(0,0,3 lru only)}"},
        "trusted_base": ["S-MEM object stands for the backing Memory (C18)", "policy objects used through their C10 contracts"],
    },
    "C09": {
        "modules": ["contracts.cache"],
        "level": "proof",
        "explanation": "same units/configurations as C03 with the accounting post-conditions against a reference set-associative cache (valid,tag per way + policy): hit <=> resident before, residency/policy after = reference (write-allocate for wb, no-write-allocate for wt), counters and miss penalty; uncounted reads and direct writes leave counters untouched",
        "configs": {"quick": "as C03", "thorough": "as C03"},
    },
    "C11": {
        "modules": ["contracts.icache"],
        "level": "proof",
        "explanation": "per enumerated geometry/policy: read_instruction on ANY well-formed instruction-cache state over a program of 2 instructions at arbitrary aligned addresses returns the very object stored in the instruction memory, accounting/residency/policy equal the reference, reset() leaves no valid block and zero counters; SingleStage/IF stage fetch exactly once iff an instruction is at pc",
        "configs": {"quick": "ib,bb,assoc in {(0,0,1),(1,0,1),(0,1,1),(0,0,2)} x {lru,plru}", "thorough": "quick + {(1,1,1),(1,0,2),(0,1,2)}"},
    },
    "C12": {
        "modules": ["contracts.cache"],
        "level": "proof",
        "explanation": "same units/configurations as C03: write-through keeps backing == logical and every resident block == its backing words (part of wf_cache, proved inductive); write-back: backing differs from logical only where resident and no written value is lost on eviction",
        "configs": {"quick": "as C03", "thorough": "as C03"},
    },
    "C06": {
        "modules": ["contracts.toy"],
        "level": "proof",
        "explanation": "ToySimulation.step from any instruction-boundary state equals one step of the reference accumulator machine (spec/toy.py) on every component; the boundary invariant is inductive; run() by loop invariant",
        "trusted_base": ["fixedint 0.2.0 (model)", "S-MEM for the TOY memory is proved in C18"],
    },
    "C19": {
        "modules": ["contracts.toy"],
        "level": "other",
        "explanation": "encoding/decoding proved for all integers and all 13 classes; assembler kernels and whole programs: see bounded part",
    },
    "C20": {
        "modules": ["contracts.toy"],
        "level": "proof",
        "explanation": "heap equality of step() vs first+second vs single_step sequences from any boundary state; sequencing errors leave the heap unchanged; done is a no-op",
    },
    "C10": {
        "modules": ["contracts.c10_replacement"],
        "level": "proof",
        "explanation": "per associativity: every well-formed policy state and every access symbolically; inductive invariants with ghost last-access times (LRU) and bottom-up path characterisation (PLRU)",
        "configs": {"quick": {"LRU": [1, 2, 3, 4, 5, 6], "PLRU": [1, 2, 4, 8]}, "thorough": {"LRU": list(range(1, 11)), "PLRU": [1, 2, 4, 8, 16, 32]}},
    },
    "C17": {
        "modules": ["contracts.c17_repr"],
        "level": "proof",
        "explanation": "formatter verified digit by digit for n in {12,16,32} and every integer input; register/TOY getters pass current values; memory tables: see bounded part",
        "trusted_base": ["digit semantics of format(int,'0Nb'|'0NX') and str(int) (A-BUILTIN)"],
    },
}

PENDING = "check not built yet in this session (planned, see DESIGN.md section 4)"
NOT_APPLICABLE = {p: PENDING for p in ["C04", "C05", "C07", "C08", "C13", "C14", "C15", "C16"]}

_T = "contract-based deductive verification: VCs from symbolic execution of the real AST, z3"
MANIFEST_TEXT = {
    "C01": {"text": "Proof per instruction over the full operand space: for each of the 45 in-scope mnemonics and each ecall code, the real single-stage step on a state with arbitrary registers, memory, pc and counters equals the independently written RV32IM reference on every listed component, incl. fault reporting; done <=> exit code or no instruction at pc; run() by loop invariant. Programs follow by induction over steps.",
            "note": "Data memory is the S-MEM contract object (flat Memory proved to implement it in C18). ecall 4 (string) is BOUNDED to strings of <= 6 bytes with ASCII content; ecall 2 proves only that a0's bits are formatted (float digits trusted). Termination of run() not proved. Known finding F6 (negative pc on backward branch below 0) is listed in known_findings.json.",
            "technique": _T},
    "C02": {"text": "Proved contracts plus a bounded composition. Proved for all operand values and all register-number aliasings: single-instruction equivalence for all 45 mnemonics + ecall codes (five real pipeline steps vs ISA reference, incl. redirect target and fault reporting), and real-five-stage == real-single-cycle on template programs of 4-5 instructions covering producer->consumer hazards at distance 1/2/3, taken/not-taken branches, JAL, JALR, exiting/printing ecalls with wrong-path stores/ALU ops/loads/ecalls/branches behind them, and faulting loads/ecalls between other instructions. 'For every program' beyond these templates is a BOUNDED run-time refinement contract (enumerated + random programs), never counted as proved.",
            "note": "The inductive whole-history refinement (Burch-Dill flushing over the stage contracts) was not attempted; composition for arbitrary programs rests on the bounded part. Termination is inherited, not proved. F1 (five-stage JALR/branch redirect not wrapped to 32 bits) was found by the single-instruction units and fixed in /repo.",
            "technique": _T + "; bounded run-time refinement contract for arbitrary programs"},
    "C03": {"text": "Proof per enumerated configuration (PROVED-PER-CONFIG): for any well-formed cache state, backing memory, address, value and flags, each read returns the S-MEM value of the logical view, each write updates exactly the touched bytes of the view (stated for every byte address), word-crossing or out-of-range accesses are rejected with every stored value unchanged, wf_cache is preserved; constructor/reset establish it. Unbounded histories by induction.",
            "note": "Geometries outside the enumerated set are not proved. Backing memory is the S-MEM object (C18). Program-level consequence follows from C01/C02 being proved against S-MEM; it is cross-checked by a bounded run-time contract. F2 (write-through word-crossing store on a miss) was found by these units and fixed in /repo.",
            "technique": _T + ", per-configuration inductive data-structure invariant against an abstract view"},
    "C09": {"text": "Proof per enumerated configuration: hit flag, hit/access counters, last-hit flag, miss-penalty cycles, residency and replacement state after every operation equal those of a reference set-associative cache fed the same access, for any well-formed pre-state; uncounted reads and parser preloads leave the counters untouched.",
            "note": "Reference policies are the real LRU/PLRU classes used through their C10 contracts. 'Identical in both modes / once per load or store' is proved per instruction class (one counted access in behavior() and in the MEM stage) and otherwise inherits C02's level.",
            "technique": _T + ", per-configuration refinement of a reference cache"},
    "C11": {"text": "Proof per enumerated configuration: a fetch at an address holding an instruction returns that very instruction object from any well-formed cache state (view invariant proved inductive), access/hit counters, last-hit flag, miss penalty, residency and policy equal a reference cache, reset() clears blocks and counters, and the single-stage and IF-stage code fetch exactly once per instruction at pc and never otherwise.",
            "note": "Program of K=2 instructions at arbitrary aligned addresses stands for 'any program' (a fetch involves at most the instructions of one block; larger blocks are in the thorough set). Ghost fact: instruction memory unchanged since the last reset (parser call order, C13). Program-level transparency in both modes inherits C01/C02. Geometries outside the set are not proved.",
            "technique": _T + ", per-configuration inductive view invariant"},
    "C12": {"text": "Proof per enumerated configuration as state invariants after every operation: write-through backing == logical and resident block == backing block; write-back backing may differ only at resident addresses and eviction never loses a written value.",
            "note": "Same assumptions and configuration set as C03.",
            "technique": _T + ", per-configuration inductive invariants"},
    "C06": {"text": "Proof for all memory images, accumulator values, program counters and max_pc: ToySimulation.step from any instruction-boundary state equals one step of an independently written reference machine on memory, accu, pc, halting, counters; the boundary invariant is inductive, so it holds for every program and history.",
            "note": "Assumes the fixedint model, the executor's Python semantics (A-ENGINE) and C18's memory contract (proved separately). Termination of run() not proved. Non-default unified_memory_size outside the property.",
            "technique": _T},
    "C10": {"text": "Proof per enumerated associativity (LRU 1..6 quick / 1..10 thorough, PLRU 1,2,4,8 quick / up to 32 thorough): constructor establishes and access preserves the policy invariant for EVERY well-formed state and access, victim = oldest last access (LRU) / leaf reached by the tree bits (PLRU), ages ordered like last accesses, repeated access is a no-op. Unbounded histories by induction.",
            "note": "Associativities outside the enumerated set are not proved (PROVED-PER-CONFIG). Ghost timestamps are specification state. That CacheSet informs the policy on every hit/fill is an obligation of C03/C09.",
            "technique": _T + ", per-configuration inductive invariants with ghost state"},
    "C17": {"text": "Proof for every integer input and n in {12,16,32} that the four strings are, digit by digit and group by group, the two's-complement rendering of number mod 2^n; register and TOY getters proved to pass the current values.",
            "note": "Digit semantics of str(int)/format() trusted (A-BUILTIN). The memory-table clause (which words are listed) is a bounded run-time contract, labelled so in the evidence.",
            "technique": _T},
    "C18": {"text": "Proof: every read/write method of the real Memory class, for the two instantiations the simulator constructs, against the little-endian byte-map view, for arbitrary pre-state, address and value; unbounded histories by induction on the view.",
            "note": "fixedint model trusted; dict semantics (A-BUILTIN).",
            "technique": _T},
    "C19": {"text": "Encoding/decoding proved for every integer word and all 13 instruction classes (loop-free, full domain). The assembler half is decided by pyparsing and is checked as a bounded run-time contract.",
            "note": "Grammar-driven placement of code/data/labels is BOUNDED (enumerated programs), never counted as proved.",
            "technique": _T + "; bounded run-time contract for the assembler"},
    "C20": {"text": "Proof by heap equality: step() vs first+second vs single_step sequences from any boundary state leave identical heaps (state, counters, markers, visualisation values); out-of-order calls raise StepSequenceError with the heap unchanged; all are no-ops when done.",
            "note": "Same assumptions as C06. load_program mid-instruction is outside the property's quantifier.",
            "technique": _T},
}
