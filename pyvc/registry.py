"""Which contract modules decide which property, the claimed level, and standing assumptions."""

COMMON_ASSUMPTIONS = [
    "A-INT: Python ints are mathematical integers; // and >> floor, % takes the divisor's sign, & | ^ ~ act on the infinite two's-complement extension (encoded exactly)",
    "A-BOOL: bool is an int subclass",
    "A-ORDER: left-to-right evaluation, dict insertion order, exception propagation by class hierarchy",
    "A-FIXEDINT (trusted dependency model, cross-checked against the installed package on every run of C00-selftest): T(v) rectifies; binary operators use the C conversion rule of _arith_convert; comparisons/int()/bool() act on the value; x[a:b] = UInt_{b-a}(int(x) >> a)",
    "A-BUILTIN: str(int), format(int,'X'|'b'|'0Nb'|'0NX'), bin, chr, list.remove/append/index, dict get/set/in, sorted on ints behave as documented",
    "A-ENGINE: the symbolic executor (pyvc) implements Python's semantics for the subset it accepts; attacked by native replay of every counter-model, by canary units that must be refuted, and by the CPython differential self-test",
    "termination is not proved (partial correctness only)",
]

PROPERTIES = {
    "C18": {
        "modules": ["contracts.c18_memory"],
        "level": "proof",
        "explanation": "every Memory read/write method verified against the little-endian byte-map view for the two instantiations the simulator uses; unbounded histories by induction on the view",
        "trusted_base": ["fixedint 0.2.0 (model)"],
    },
    "C06": {
        "modules": ["contracts.toy"],
        "level": "proof",
        "explanation": "ToySimulation.step from any instruction-boundary state equals one step of the reference accumulator machine (spec/toy.py) on every component; the boundary invariant is inductive; run() by loop invariant",
        "trusted_base": ["fixedint 0.2.0 (model)", "S-MEM for the TOY memory is proved in C18"],
    },
    "C19": {
        "modules": ["contracts.toy"],
        "level": "other",
        "explanation": "encoding/decoding proved for all integers and all 13 classes; assembler kernels and whole programs: see bounded part",
    },
    "C20": {
        "modules": ["contracts.toy"],
        "level": "proof",
        "explanation": "heap equality of step() vs first+second vs single_step sequences from any boundary state; sequencing errors leave the heap unchanged; done is a no-op",
    },
}
