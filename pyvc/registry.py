"""Which contract modules decide which property, the claimed level, and standing assumptions."""

COMMON_ASSUMPTIONS = [
    "A-INT: Python ints are mathematical integers; // and >> floor, % takes the divisor's sign, & | ^ ~ act on the infinite two's-complement extension (encoded exactly)",
    "A-BOOL: bool is an int subclass",
    "A-ORDER: left-to-right evaluation, dict insertion order, exception propagation by class hierarchy",
    "A-FIXEDINT (trusted dependency model, cross-checked against the installed package on every run of C00-selftest): T(v) rectifies; binary operators use the C conversion rule of _arith_convert; comparisons/int()/bool() act on the value; x[a:b] = UInt_{b-a}(int(x) >> a)",
    "A-BUILTIN: str(int), format(int,'X'|'b'|'0Nb'|'0NX'), bin, chr, list.remove/append/index, dict get/set/in, sorted on ints behave as documented",
    "A-ENGINE: the symbolic executor (pyvc) implements Python's semantics for the subset it accepts; attacked by native replay of every counter-model, by canary units that must be refuted, and by the CPython differential self-test",
    "termination is not proved (partial correctness only)",
]

PROPERTIES = {
    "C18": {
        "modules": ["contracts.c18_memory"],
        "level": "proof",
        "explanation": "every Memory read/write method verified against the little-endian byte-map view for the two instantiations the simulator uses; unbounded histories by induction on the view",
        "trusted_base": ["fixedint 0.2.0 (model)"],
    },
    "C01": {
        "modules": ["contracts.c01_single"],
        "level": "proof",
        "explanation": "one unit per in-scope mnemonic (45 + 9 ecall codes): real RiscvSimulation.step in single-stage configuration vs the RV32IM reference on registers, data memory, pc, output, exit code, counters, fault reporting; all register numbers, contents, immediates, memory contents symbolic",
        "trusted_base": ["fixedint 0.2.0 (model)", "S-MEM (spec/smem.py) stands for state.memory; the flat Memory is proved to implement it in C18", "str(float) digits"],
        "while_bound": 8,
    },
    "C06": {
        "modules": ["contracts.toy"],
        "level": "proof",
        "explanation": "ToySimulation.step from any instruction-boundary state equals one step of the reference accumulator machine (spec/toy.py) on every component; the boundary invariant is inductive; run() by loop invariant",
        "trusted_base": ["fixedint 0.2.0 (model)", "S-MEM for the TOY memory is proved in C18"],
    },
    "C19": {
        "modules": ["contracts.toy"],
        "level": "other",
        "explanation": "encoding/decoding proved for all integers and all 13 classes; assembler kernels and whole programs: see bounded part",
    },
    "C20": {
        "modules": ["contracts.toy"],
        "level": "proof",
        "explanation": "heap equality of step() vs first+second vs single_step sequences from any boundary state; sequencing errors leave the heap unchanged; done is a no-op",
    },
    "C10": {
        "modules": ["contracts.c10_replacement"],
        "level": "proof",
        "explanation": "per associativity: every well-formed policy state and every access symbolically; inductive invariants with ghost last-access times (LRU) and bottom-up path characterisation (PLRU)",
        "configs": {"quick": {"LRU": [1, 2, 3, 4, 5, 6], "PLRU": [1, 2, 4, 8]}, "thorough": {"LRU": list(range(1, 11)), "PLRU": [1, 2, 4, 8, 16, 32]}},
    },
    "C17": {
        "modules": ["contracts.c17_repr"],
        "level": "proof",
        "explanation": "formatter verified digit by digit for n in {12,16,32} and every integer input; register/TOY getters pass current values; memory tables: see bounded part",
        "trusted_base": ["digit semantics of format(int,'0Nb'|'0NX') and str(int) (A-BUILTIN)"],
    },
}

PENDING = "check not built yet in this session (planned, see DESIGN.md section 4)"
NOT_APPLICABLE = {p: PENDING for p in ["C02", "C03", "C04", "C05", "C07", "C08", "C09", "C11", "C12", "C13", "C14", "C15", "C16"]}

_T = "contract-based deductive verification: VCs from symbolic execution of the real AST, z3"
MANIFEST_TEXT = {
    "C01": {"text": "Proof per instruction over the full operand space: for each of the 45 in-scope mnemonics and each ecall code, the real single-stage step on a state with arbitrary registers, memory, pc and counters equals the independently written RV32IM reference on every listed component, incl. fault reporting; done <=> exit code or no instruction at pc; run() by loop invariant. Programs follow by induction over steps.",
            "note": "Data memory is the S-MEM contract object (flat Memory proved to implement it in C18). ecall 4 (string) is BOUNDED to strings of <= 6 bytes with ASCII content; ecall 2 proves only that a0's bits are formatted (float digits trusted). Termination of run() not proved. Known finding F6 (negative pc on backward branch below 0) is listed in known_findings.json.",
            "technique": _T},
    "C06": {"text": "Proof for all memory images, accumulator values, program counters and max_pc: ToySimulation.step from any instruction-boundary state equals one step of an independently written reference machine on memory, accu, pc, halting, counters; the boundary invariant is inductive, so it holds for every program and history.",
            "note": "Assumes the fixedint model, the executor's Python semantics (A-ENGINE) and C18's memory contract (proved separately). Termination of run() not proved. Non-default unified_memory_size outside the property.",
            "technique": _T},
    "C10": {"text": "Proof per enumerated associativity (LRU 1..6 quick / 1..10 thorough, PLRU 1,2,4,8 quick / up to 32 thorough): constructor establishes and access preserves the policy invariant for EVERY well-formed state and access, victim = oldest last access (LRU) / leaf reached by the tree bits (PLRU), ages ordered like last accesses, repeated access is a no-op. Unbounded histories by induction.",
            "note": "Associativities outside the enumerated set are not proved (PROVED-PER-CONFIG). Ghost timestamps are specification state. That CacheSet informs the policy on every hit/fill is an obligation of C03/C09.",
            "technique": _T + ", per-configuration inductive invariants with ghost state"},
    "C17": {"text": "Proof for every integer input and n in {12,16,32} that the four strings are, digit by digit and group by group, the two's-complement rendering of number mod 2^n; register and TOY getters proved to pass the current values.",
            "note": "Digit semantics of str(int)/format() trusted (A-BUILTIN). The memory-table clause (which words are listed) is a bounded run-time contract, labelled so in the evidence.",
            "technique": _T},
    "C18": {"text": "Proof: every read/write method of the real Memory class, for the two instantiations the simulator constructs, against the little-endian byte-map view, for arbitrary pre-state, address and value; unbounded histories by induction on the view.",
            "note": "fixedint model trusted; dict semantics (A-BUILTIN).",
            "technique": _T},
    "C19": {"text": "Encoding/decoding proved for every integer word and all 13 instruction classes (loop-free, full domain). The assembler half is decided by pyparsing and is checked as a bounded run-time contract.",
            "note": "Grammar-driven placement of code/data/labels is BOUNDED (enumerated programs), never counted as proved.",
            "technique": _T + "; bounded run-time contract for the assembler"},
    "C20": {"text": "Proof by heap equality: step() vs first+second vs single_step sequences from any boundary state leave identical heaps (state, counters, markers, visualisation values); out-of-order calls raise StepSequenceError with the heap unchanged; all are no-ops when done.",
            "note": "Same assumptions as C06. load_program mid-instruction is outside the property's quantifier.",
            "technique": _T},
}
