"""Mechanical slicing of statements out of a larger method that is otherwise out of the executor's reach
(the pyparsing-driven assembler passes).  Shared by the symbolic and the native API.

select(module_source, qualname, if_test) locates, inside function `qualname` (Class.method), the `if`/`elif`
whose test unparses to `if_test` and returns its body statements.  keep_statements(body, keep) returns, in order,
  * assignments / augmented assignments whose targets are names in the backward slice of `keep` (the names themselves
    plus every local temporary they are computed from, up to the inputs the harness supplies),
  * `if` statements that (recursively) consist only of such assignments,
and, separately, the tests of the remaining `if` statements and the dict values passed to calls named in
`capture_calls`.  Everything else in the body is DROPPED from the verified text (token extraction from
ParseResults, the f-string rendering of numbers and their re-parse, list surgery on self.text)."""
import ast


class SliceMismatch(Exception):
    """the harness's idea of the source (an `if` test to locate, names to slice for, a call to capture) no longer
    matches the source text: the unit is UNDECIDED (nothing is known about the code), never a violation"""


def find_function(tree, qualname):
    parts = qualname.split(".")
    node = tree
    for p in parts:
        found = None
        for n in ast.walk(node) if node is tree else node.body:
            if isinstance(n, (ast.ClassDef, ast.FunctionDef)) and n.name == p:
                found = n
                break
        if found is None:
            raise SliceMismatch("cannot find %s in module" % qualname)
        node = found
    return node


def select(tree, qualname, if_test, nth=0):
    fn = find_function(tree, qualname)
    hits = []
    for n in ast.walk(fn):
        if isinstance(n, ast.If) and ast.unparse(n.test).replace("\n", " ") == if_test:
            hits.append(n)
    if len(hits) <= nth:
        raise SliceMismatch("no `if %s` (occurrence %d) in %s" % (if_test, nth, qualname))
    return hits[nth].body


def _targets(st):
    if isinstance(st, ast.Assign):
        out = []
        for t in st.targets:
            if isinstance(t, ast.Name):
                out.append(t.id)
            elif isinstance(t, (ast.Tuple, ast.List)) and all(isinstance(e, ast.Name) for e in t.elts):
                out.extend(e.id for e in t.elts)          # a, b = helper(x)
            else:
                return None
        return out
    if isinstance(st, ast.AugAssign):
        return [st.target.id] if isinstance(st.target, ast.Name) else None
    return None


def _pure_if(st, keep):
    if not isinstance(st, ast.If):
        return False
    for s in st.body + st.orelse:
        t = _targets(s)
        if t is not None and all(x in keep for x in t):
            continue
        if _pure_if(s, keep):
            continue
        return False
    return True


def _reads(st):
    return {n.id for n in ast.walk(st) if isinstance(n, ast.Name) and isinstance(n.ctx, ast.Load)} | (
        {st.target.id} if isinstance(st, ast.AugAssign) and isinstance(st.target, ast.Name) else set())


def _assigned_simply(body):
    out = set()
    for st in body:
        t = _targets(st)
        if t is not None:
            out |= set(t)
        elif isinstance(st, ast.If):
            out |= _assigned_simply(st.body + st.orelse)
    return out


def keep_statements(body, keep, capture_calls=(), inputs=()):
    """backward slice for the names in `keep`: simple assignments (and ifs made only of them) that define a needed name;
    a name such a statement reads becomes needed too if the body defines it by a simple assignment and it is not one of
    the `inputs` the harness supplies.  Local renamings / explanatory temporaries therefore do not change the slice."""
    needed = set(keep)
    simple = _assigned_simply(body)
    inputs = set(inputs)
    while True:
        before = set(needed)
        for st in body:
            t = _targets(st)
            if (t is not None and any(x in needed for x in t) and not any(x in inputs for x in t)) or _pure_if(st, needed):
                if t is not None:
                    needed |= set(t)
                for r in _reads(st):
                    if r in simple and r not in inputs:
                        needed.add(r)
        if needed == before:
            break
    keep = needed
    kept = []
    subscripts = tuple(c[:-len(".update")] for c in capture_calls if c.endswith(".update"))
    for st in body:
        t = _targets(st)
        if t is not None and all(x in keep for x in t):
            kept.append(("stmt", st))
        elif _pure_if(st, keep):
            kept.append(("stmt", st))
        elif isinstance(st, ast.If):
            kept.append(("test", st.test))
        elif isinstance(st, ast.Expr) and isinstance(st.value, ast.Call) and ast.unparse(st.value.func) in capture_calls:
            for a in st.value.args:
                if isinstance(a, ast.Dict):
                    for v in a.values:
                        kept.append(("capture", v))
        elif isinstance(st, ast.Assign) and len(st.targets) == 1 and isinstance(st.targets[0], ast.Subscript) and ast.unparse(st.targets[0].value) in subscripts:
            kept.append(("capture", st.value))          # d[k] = v  is the same table entry as  d.update({k: v})
    return kept


def loop_parts(tree, qualname, case_value=None, nth=0):
    """The nth `while` loop of function `qualname` (inside the `case <case_value>:` arm of a match statement when
    case_value is given) together with the statements that precede and follow it in its block:
    -> (pre statements, while node, post statements).
    Nothing is dropped: the three parts are the whole block.  The loop must have no else clause and its body no
    break / continue / return / nested function, and the block must end in a single `return <expr>` right after the loop;
    anything else is a SliceMismatch (the unit is then UNDECIDED)."""
    fn = find_function(tree, qualname)
    blocks = []
    if case_value is not None:
        for n in ast.walk(fn):
            if isinstance(n, ast.Match):
                for c in n.cases:
                    if isinstance(c.pattern, ast.MatchValue) and isinstance(c.pattern.value, ast.Constant) and c.pattern.value.value == case_value:
                        blocks.append(c.body)
    else:
        blocks = [n.body for n in ast.walk(fn) if hasattr(n, "body") and isinstance(n.body, list)]
    hits = []
    for b in blocks:
        for i, st in enumerate(b):
            if isinstance(st, ast.While):
                hits.append((b[:i], st, b[i + 1:]))
    if len(hits) <= nth:
        raise SliceMismatch("no while loop (occurrence %d) in %s%s" % (nth, qualname, "" if case_value is None else " case %r" % (case_value,)))
    pre, loop, post = hits[nth]
    if loop.orelse:
        raise SliceMismatch("while loop with an else clause")
    for n in ast.walk(ast.Module(loop.body, [])):
        if isinstance(n, (ast.Break, ast.Continue, ast.Return, ast.FunctionDef, ast.Lambda, ast.Yield, ast.While, ast.For)):
            raise SliceMismatch("loop body contains %s" % type(n).__name__)
    if len(post) != 1 or not isinstance(post[0], ast.Return) or post[0].value is None:
        raise SliceMismatch("the loop is not followed by a single `return <expr>`")
    for st in pre:
        if not isinstance(st, (ast.Assign, ast.AnnAssign, ast.AugAssign)):
            raise SliceMismatch("statement before the loop is not an assignment: %s" % type(st).__name__)
    return pre, loop, post


def loop_names(pre, loop, post, global_names):
    """Names the three parts of a loop block use, so that a harness can address them by role instead of by spelling:
    state  = names assigned before the loop (in order),
    free_pre  = names the assignments before the loop read that are neither assigned there nor module globals/builtins,
    free_loop = names the test, body and return read that are neither state, nor bound inside the loop, nor globals."""
    import builtins
    known = set(global_names) | set(dir(builtins))

    def reads(nodes):
        out = []
        for st in nodes:
            for n in ast.walk(st):
                if isinstance(n, ast.Name) and isinstance(n.ctx, ast.Load) and n.id not in out:
                    out.append(n.id)
        return out

    def writes(nodes):
        out = []
        for st in nodes:
            for n in ast.walk(st):
                if isinstance(n, ast.Name) and isinstance(n.ctx, ast.Store) and n.id not in out:
                    out.append(n.id)
        return out
    state = writes(pre)
    free_pre = [n for n in reads(pre) if n not in state and n not in known]
    inner = writes([loop.test] + list(loop.body))
    free_loop = [n for n in reads([loop.test] + list(loop.body) + list(post)) if n not in state and n not in inner and n not in known]
    return {"state": state, "free_pre": free_pre, "free_loop": free_loop}
