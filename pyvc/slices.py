"""Mechanical slicing of statements out of a larger method that is otherwise out of the executor's reach
(the pyparsing-driven assembler passes).  Shared by the symbolic and the native API.

select(module_source, qualname, if_test) locates, inside function `qualname` (Class.method), the `if`/`elif`
whose test unparses to `if_test` and returns its body statements.  keep_statements(body, keep) returns, in order,
  * assignments / augmented assignments whose targets are all names in `keep`,
  * `if` statements that (recursively) consist only of such assignments,
and, separately, the tests of the remaining `if` statements and the dict values passed to calls named in
`capture_calls`.  Everything else in the body is DROPPED from the verified text (token extraction from
ParseResults, the f-string rendering of numbers and their re-parse, list surgery on self.text)."""
import ast


def find_function(tree, qualname):
    parts = qualname.split(".")
    node = tree
    for p in parts:
        found = None
        for n in ast.walk(node) if node is tree else node.body:
            if isinstance(n, (ast.ClassDef, ast.FunctionDef)) and n.name == p:
                found = n
                break
        if found is None:
            raise LookupError("cannot find %s in module" % qualname)
        node = found
    return node


def select(tree, qualname, if_test, nth=0):
    fn = find_function(tree, qualname)
    hits = []
    for n in ast.walk(fn):
        if isinstance(n, ast.If) and ast.unparse(n.test).replace("\n", " ") == if_test:
            hits.append(n)
    if len(hits) <= nth:
        raise LookupError("no `if %s` (occurrence %d) in %s" % (if_test, nth, qualname))
    return hits[nth].body


def _targets(st):
    if isinstance(st, ast.Assign):
        out = []
        for t in st.targets:
            if not isinstance(t, ast.Name):
                return None
            out.append(t.id)
        return out
    if isinstance(st, ast.AugAssign):
        return [st.target.id] if isinstance(st.target, ast.Name) else None
    return None


def _pure_if(st, keep):
    if not isinstance(st, ast.If):
        return False
    for s in st.body + st.orelse:
        t = _targets(s)
        if t is not None and all(x in keep for x in t):
            continue
        if _pure_if(s, keep):
            continue
        return False
    return True


def keep_statements(body, keep, capture_calls=()):
    kept, tests, captured = [], [], []
    for st in body:
        t = _targets(st)
        if t is not None and all(x in keep for x in t):
            kept.append(("stmt", st))
        elif _pure_if(st, keep):
            kept.append(("stmt", st))
        elif isinstance(st, ast.If):
            kept.append(("test", st.test))
        elif isinstance(st, ast.Expr) and isinstance(st.value, ast.Call) and ast.unparse(st.value.func) in capture_calls:
            for a in st.value.args:
                if isinstance(a, ast.Dict):
                    for v in a.values:
                        kept.append(("capture", v))
    return kept
