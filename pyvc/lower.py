"""Lowering of IR obligations to SMT (z3 API), one theory per obligation.

* Int lowering: linear/non-linear integer arithmetic, div/mod, uninterpreted functions.
* BV lowering: chosen when the obligation contains a symbolic-by-symbolic bit operation.  Every
  node must have a finite interval; the width is the smallest that holds every node's interval
  as a signed number, so no operation can overflow and the bit-vector value coincides with the
  mathematical one.

``solve`` returns proved / refuted(model) / unknown.  A refutation is only reported after the
model has been re-evaluated with Python semantics (``ir.ev``) and found to satisfy every
assumption and falsify the goal; otherwise the answer is ``unknown`` (lowering gap).
"""
from __future__ import annotations
import time
import subprocess
import tempfile
import os
import z3
from . import ir
from .ir import Term, INT, BOOL


class Result:
    __slots__ = ("status", "model", "backend", "seconds", "reason")

    def __init__(self, status, model=None, backend="", seconds=0.0, reason=""):
        self.status = status
        self.model = model
        self.backend = backend
        self.seconds = seconds
        self.reason = reason

    def __repr__(self):
        return "Result(%s, %s, %.3fs, %s)" % (self.status, self.backend, self.seconds, self.reason)


class Unbounded(Exception):
    pass


# ----------------------------------------------------------------------------- Int lowering

_chain_memo = {}


def ite_chain_len(t):
    """length of the else-chain of an INT ite"""
    n = 0
    u = t
    while u.op == "ite":
        n += 1
        u = u.args[2]
    return n


class IntLower:
    def __init__(self, abstract=False):
        # abstract=True generalises the formula (sound for proving validity only): symbolic-by-symbolic
        # mul/div/mod become uninterpreted functions, long ite chains (register-file reads) become fresh variables
        self.abstract = abstract
        self.memo = {}
        self.side = []          # range constraints for vars and UF applications
        self.vars = {}          # name -> z3 const
        self.funcs = {}         # name -> z3 func
        self.apps = []          # (fname, idx Term, app Term)

    def lower(self, t: Term):
        memo = self.memo
        stack = [t]
        while stack:
            u = stack[-1]
            if u.id in memo:
                stack.pop()
                continue
            if getattr(self, "abstract", False) and u.op == "ite" and ite_chain_len(u) >= 8:
                v = z3.Int("abs!%d" % u.id)
                if u.lo is not None:
                    self.side.append(v >= u.lo)
                if u.hi is not None:
                    self.side.append(v <= u.hi)
                memo[u.id] = v
                stack.pop()
                continue
            pend = [a for a in u.args if isinstance(a, Term) and a.id not in memo]
            if pend:
                stack.extend(pend)
                continue
            stack.pop()
            memo[u.id] = self._one(u, [memo[a.id] if isinstance(a, Term) else a for a in u.args])
        return memo[t.id]

    def _uf(self, name, x, y, u):
        f = self.funcs.get(name)
        if f is None:
            f = z3.Function(name, z3.IntSort(), z3.IntSort(), z3.IntSort())
            self.funcs[name] = f
        e = f(x, y)
        if name == "uf!mul":
            self.side.append(e == f(y, x))
        if u is not None:
            if u.lo is not None:
                self.side.append(e >= u.lo)
            if u.hi is not None:
                self.side.append(e <= u.hi)
        return e

    def _one(self, u, a):
        op = u.op
        if self.abstract:
            if op == "mul" and u.args[1].op != "const":
                return self._uf("uf!mul", a[0], a[1], u)
            if op in ("fdiv", "mod") and u.args[1].op != "const":
                return self._uf("uf!" + op, a[0], a[1], u)
            if op == "tdiv":
                x, y = a
                ax = z3.If(x >= 0, x, -x)
                ay = z3.If(y >= 0, y, -y)
                q = self._uf("uf!fdiv", ax, ay, None)
                self.side.append(q >= 0)
                return z3.If((x >= 0) == (y > 0), q, -q)
        if op == "const":
            return z3.IntVal(a[0])
        if op == "bconst":
            return z3.BoolVal(a[0])
        if op == "var":
            v = self.vars.get(a[0])
            if v is None:
                v = z3.Int(a[0])
                self.vars[a[0]] = v
                if a[1] is not None:
                    self.side.append(v >= a[1])
                if a[2] is not None:
                    self.side.append(v <= a[2])
            return v
        if op == "bvar":
            v = self.vars.get(a[0])
            if v is None:
                v = z3.Bool(a[0])
                self.vars[a[0]] = v
            return v
        if op == "app":
            f = self.funcs.get(a[0])
            if f is None:
                f = z3.Function(a[0], z3.IntSort(), z3.IntSort())
                self.funcs[a[0]] = f
            e = f(a[1])
            if a[2] is not None:
                self.side.append(e >= a[2])
            if a[3] is not None:
                self.side.append(e <= a[3])
            self.apps.append((a[0], u.args[1], u))
            return e
        if op == "bapp":
            f = self.funcs.get(a[0])
            if f is None:
                f = z3.Function(a[0], z3.IntSort(), z3.BoolSort())
                self.funcs[a[0]] = f
            self.apps.append((a[0], u.args[1], u))
            return f(a[1])
        if op == "add":
            return a[0] + a[1]
        if op == "sub":
            return a[0] - a[1]
        if op == "neg":
            return -a[0]
        if op == "mul":
            return a[0] * a[1]
        if op == "fdiv":
            d = u.args[1]
            if d.lo is not None and d.lo > 0:
                return a[0] / a[1]
            if d.hi is not None and d.hi < 0:
                return (-a[0]) / (-a[1])
            return z3.If(a[1] > 0, a[0] / a[1], (-a[0]) / (-a[1]))
        if op == "mod":
            d = u.args[1]
            if d.lo is not None and d.lo > 0:
                return a[0] % a[1]
            if d.hi is not None and d.hi < 0:
                return -((-a[0]) % (-a[1]))
            return z3.If(a[1] > 0, a[0] % a[1], -((-a[0]) % (-a[1])))
        if op == "tdiv":
            x, y = a
            ax = z3.If(x >= 0, x, -x)
            ay = z3.If(y >= 0, y, -y)
            q = ax / ay
            return z3.If((x >= 0) == (y > 0), q, -q)
        if op in ("band", "bor", "bxor"):
            raise AssertionError("bit operation in Int lowering")
        if op == "ite" or op == "bite":
            return z3.If(a[0], a[1], a[2])
        if op == "not":
            return z3.Not(a[0])
        if op == "and":
            return z3.And(a[0], a[1])
        if op == "or":
            return z3.Or(a[0], a[1])
        if op == "eq" or op == "beq":
            return a[0] == a[1]
        if op == "lt":
            return a[0] < a[1]
        if op == "le":
            return a[0] <= a[1]
        raise AssertionError("IntLower: unknown op " + op)

    def value(self, m, u: Term):
        e = self.memo[u.id]
        v = m.eval(e, model_completion=True)
        if u.sort == BOOL:
            return z3.is_true(v)
        return v.as_long()


# ----------------------------------------------------------------------------- BV lowering

def _need_bits(lo, hi):
    if lo is None or hi is None:
        raise Unbounded()
    m = max(hi, -lo - 1, 0)
    return m.bit_length() + 1


class BVLower:
    def __init__(self, roots):
        w = 8
        for t in ir.subterms(roots):
            if t.sort == INT:
                try:
                    w = max(w, _need_bits(t.lo, t.hi))
                except Unbounded:
                    raise Unbounded("term without finite interval in bit-vector obligation: %s" % ir.show(t)[:200])
        self.w = w + 1
        self.memo = {}
        self.side = []
        self.vars = {}
        self.funcs = {}
        self.apps = []

    lower = IntLower.lower

    def _c(self, v):
        return z3.BitVecVal(v, self.w)

    def _one(self, u, a):
        op = u.op
        W = self.w
        if op == "const":
            return z3.BitVecVal(a[0], W)
        if op == "bconst":
            return z3.BoolVal(a[0])
        if op == "var":
            v = self.vars.get(a[0])
            if v is None:
                v = z3.BitVec(a[0], W)
                self.vars[a[0]] = v
                self.side.append(v >= self._c(a[1]))
                self.side.append(v <= self._c(a[2]))
            return v
        if op == "bvar":
            v = self.vars.get(a[0])
            if v is None:
                v = z3.Bool(a[0])
                self.vars[a[0]] = v
            return v
        if op == "app":
            f = self.funcs.get(a[0])
            if f is None:
                f = z3.Function(a[0], z3.BitVecSort(W), z3.BitVecSort(W))
                self.funcs[a[0]] = f
            e = f(a[1])
            self.side.append(e >= self._c(a[2]))
            self.side.append(e <= self._c(a[3]))
            self.apps.append((a[0], u.args[1], u))
            return e
        if op == "bapp":
            f = self.funcs.get(a[0])
            if f is None:
                f = z3.Function(a[0], z3.BitVecSort(W), z3.BoolSort())
                self.funcs[a[0]] = f
            self.apps.append((a[0], u.args[1], u))
            return f(a[1])
        if op == "add":
            return a[0] + a[1]
        if op == "sub":
            return a[0] - a[1]
        if op == "neg":
            return -a[0]
        if op == "mul":
            return a[0] * a[1]
        if op in ("fdiv", "mod"):
            x, y = a
            d = u.args[1]
            if d.op == "const" and ir.cval(d) > 0 and (ir.cval(d) & (ir.cval(d) - 1)) == 0:
                k = ir.cval(d).bit_length() - 1
                if op == "fdiv":
                    return x >> k          # arithmetic shift = floor division
                return x & self._c(ir.cval(d) - 1)
            q = z3.SDiv(x, y)              # truncating
            r = z3.SRem(x, y)
            adj = z3.And(r != 0, (x < 0) != (y < 0))
            fq = z3.If(adj, q - 1, q)
            if op == "fdiv":
                return fq
            return x - y * fq
        if op == "tdiv":
            return z3.SDiv(a[0], a[1])
        if op == "band":
            return a[0] & a[1]
        if op == "bor":
            return a[0] | a[1]
        if op == "bxor":
            return a[0] ^ a[1]
        if op == "ite" or op == "bite":
            return z3.If(a[0], a[1], a[2])
        if op == "not":
            return z3.Not(a[0])
        if op == "and":
            return z3.And(a[0], a[1])
        if op == "or":
            return z3.Or(a[0], a[1])
        if op == "eq" or op == "beq":
            return a[0] == a[1]
        if op == "lt":
            return a[0] < a[1]      # signed in z3py
        if op == "le":
            return a[0] <= a[1]
        raise AssertionError("BVLower: unknown op " + op)

    def value(self, m, u: Term):
        e = self.memo[u.id]
        v = m.eval(e, model_completion=True)
        if u.sort == BOOL:
            return z3.is_true(v)
        return v.as_signed_long()


# ----------------------------------------------------------------------------- solving

def _extract_model(lw, m, roots):
    model = {}
    for t in ir.subterms(roots):
        if t.op == "var" or t.op == "bvar":
            model[t.args[0]] = lw.value(m, t)
    for fname, idx, appt in lw.apps:
        tbl = model.setdefault(fname, ({}, None))[0]
        tbl[lw.value(m, idx)] = lw.value(m, appt)
    return model


def _validate(assumptions, goal, model):
    memo = {}
    try:
        for a in assumptions:
            if not ir.ev(a, model, memo):
                return "assumption false under model: " + ir.show(a)[:200]
        if ir.ev(goal, model, memo):
            return "goal true under model"
    except ir.ModelGap as e:
        return str(e)
    return None


def _run_cvc5(smt2: str, timeout_ms: int):
    with tempfile.NamedTemporaryFile("w", suffix=".smt2", delete=False) as f:
        f.write(smt2)
        path = f.name
    try:
        p = subprocess.run(["/usr/bin/cvc5", "--tlimit=%d" % timeout_ms, path], capture_output=True, text=True,
                           timeout=timeout_ms / 1000 + 5)
        out = p.stdout.strip().splitlines()
        return out[0] if out else "unknown"
    except Exception:
        return "unknown"
    finally:
        os.unlink(path)


def _divmod_count(roots):
    return sum(1 for t in ir.subterms(roots) if t.op in ("fdiv", "mod"))


def _run(lw, assumptions, goal, roots, timeout_ms, backend):
    t0 = time.time()
    s = z3.Solver()
    s.set("timeout", int(timeout_ms))
    zs = [lw.lower(a) for a in assumptions]
    zg = lw.lower(goal)
    for c in lw.side:
        s.add(c)
    for c in zs:
        s.add(c)
    s.add(z3.Not(zg))
    r = s.check()
    dt = time.time() - t0
    if r == z3.unsat:
        return Result("proved", backend=backend, seconds=dt)
    if r == z3.sat:
        model = _extract_model(lw, s.model(), roots)
        why = _validate(assumptions, goal, model)
        if why is None:
            return Result("refuted", model=model, backend=backend, seconds=dt)
        return Result("unknown", model=model, backend=backend, seconds=dt, reason="counter-model rejected by Python evaluation: " + why)
    return Result("unknown", backend=backend, seconds=dt, reason=s.reason_unknown())


def _flatten_and(t, out):
    if t.op == "and":
        _flatten_and(t.args[0], out)
        _flatten_and(t.args[1], out)
    else:
        out.append(t)


def solve(assumptions, goal, timeout_ms=10000, use_cvc5=False) -> Result:
    """Is (and assumptions) => goal valid?  A conjunction that does not close in one query is split."""
    goal = ir.lift(goal)
    if os.environ.get("PYVC_FORCE_UNKNOWN"):
        # self-test knob: no obligation is decided by a solver, so every one falls to the bounded native adjudication
        return Result("unknown", seconds=0.0)
    parts = []
    _flatten_and(goal, parts)
    if len(parts) >= 6 and len(list(ir.subterms([goal]))) > 400:
        r = Result("unknown", seconds=0.0)       # large conjunction: go straight to per-conjunct queries
    else:
        r = solve1(assumptions, goal, timeout_ms, use_cvc5)
    if r.status != "unknown" or goal.op != "and":
        return r
    total = r.seconds
    backends = set()
    for c in parts:
        rc = solve1(assumptions, c, timeout_ms, use_cvc5)
        total += rc.seconds
        if rc.status != "proved":
            rc.seconds = total
            return rc
        backends.add(rc.backend)
    return Result("proved", backend="+".join(sorted(backends)) + "(split)", seconds=total)


def solve1(assumptions, goal, timeout_ms=10000, use_cvc5=False) -> Result:
    t0 = time.time()
    assumptions = [ir.lift(a) for a in assumptions]
    goal = ir.lift(goal)
    # trivial cases
    if goal.op == "bconst" and ir.cval(goal):
        return Result("proved", backend="structural", seconds=0.0)
    for a in assumptions:
        if a.op == "bconst" and not ir.cval(a):
            return Result("proved", backend="structural", seconds=0.0, reason="infeasible path")
    roots = assumptions + [goal]
    try:
        if ir.has_bitop(roots):
            lw = BVLower(roots)
            backend = "z3-bv"
        else:
            lw = IntLower()
            backend = "z3-int"
    except Unbounded as e:
        return Result("unknown", backend="none", seconds=time.time() - t0, reason=str(e))
    if backend == "z3-int" and not ir.has_nonlinear(roots) and _divmod_count(roots) >= int(os.environ.get("PYVC_BV_FIRST", "4")):
        # mask/shift-heavy linear obligation over bounded terms: bit-vectors decide these in milliseconds
        # where LIA with div/mod times out.  Same exactness argument as above (width covers every interval).
        try:
            lb = BVLower(roots)
            if lb.w <= 96:
                rb = _run(lb, assumptions, goal, roots, min(timeout_ms, 8000), "z3-bv")
                if rb.status != "unknown":
                    rb.seconds = time.time() - t0
                    return rb
        except Unbounded:
            pass
    if backend == "z3-int" and (ir.has_nonlinear(roots) or any(t.op == "ite" and ite_chain_len(t) >= 8 for t in ir.subterms(roots))):
        la = IntLower(abstract=True)
        sa = z3.Solver()
        sa.set("timeout", int(min(timeout_ms, 5000)))
        za = [la.lower(a) for a in assumptions]
        zga = la.lower(goal)
        for c in la.side:
            sa.add(c)
        for c in za:
            sa.add(c)
        sa.add(z3.Not(zga))
        if sa.check() == z3.unsat:
            return Result("proved", backend="z3-int-abstracted", seconds=time.time() - t0)
    s = z3.Solver()
    s.set("timeout", int(timeout_ms))
    zs = [lw.lower(a) for a in assumptions]
    zg = lw.lower(goal)
    for c in lw.side:
        s.add(c)
    for c in zs:
        s.add(c)
    s.add(z3.Not(zg))
    r = s.check()
    dt = time.time() - t0
    if r == z3.unsat:
        return Result("proved", backend=backend, seconds=dt)
    if r == z3.sat:
        model = _extract_model(lw, s.model(), roots)
        why = _validate(assumptions, goal, model)
        if why is None:
            return Result("refuted", model=model, backend=backend, seconds=dt)
        return Result("unknown", model=model, backend=backend, seconds=dt, reason="counter-model rejected by Python evaluation: " + why)
    reason = s.reason_unknown()
    if use_cvc5:
        smt2 = "(set-logic ALL)\n" + s.to_smt2()
        ans = _run_cvc5(smt2, timeout_ms)
        dt = time.time() - t0
        if ans == "unsat":
            return Result("proved", backend="cvc5", seconds=dt)
    return Result("unknown", backend=backend, seconds=dt, reason=reason)


def feasible(assumptions, timeout_ms=2000):
    """True / False / None(unknown) -- is the conjunction satisfiable?"""
    assumptions = [ir.lift(a) for a in assumptions]
    for a in assumptions:
        if a.op == "bconst" and not ir.cval(a):
            return False
    live = [a for a in assumptions if a.op != "bconst"]
    if not live:
        return True
    try:
        lw = BVLower(live) if ir.has_bitop(live) else IntLower()
    except Unbounded:
        return None
    s = z3.Solver()
    s.set("timeout", int(timeout_ms))
    zs = [lw.lower(a) for a in live]
    for c in lw.side:
        s.add(c)
    for c in zs:
        s.add(c)
    r = s.check()
    if r == z3.sat:
        return True
    if r == z3.unsat:
        return False
    return None


def find_model(assumptions, timeout_ms=5000):
    """A validated model of the conjunction, or None."""
    r = solve(assumptions, ir.FALSE, timeout_ms)
    return r.model if r.status == "refuted" else None


class FeasSolver:
    """Incremental feasibility oracle for one exploration: every path-condition conjunct t gets an
    indicator p_t with `p_t => t` asserted once; a query is check(p_t1, ..., p_tn).  Range facts of
    variables and UF applications are asserted unconditionally (they hold in every state)."""

    def __init__(self, timeout_ms=3000):
        self.lw = IntLower()
        self.s = z3.Solver()
        self.s.set("timeout", int(timeout_ms))
        self.ind = {}
        self.n_side = 0
        self.timeout_ms = timeout_ms

    def _indicator(self, t):
        p = self.ind.get(t.id)
        if p is None:
            if has_bitop_cached(t):
                return None
            e = self.lw.lower(t)
            p = z3.Bool("p!%d" % t.id)
            self.s.add(z3.Implies(p, e))
            while self.n_side < len(self.lw.side):
                self.s.add(self.lw.side[self.n_side])
                self.n_side += 1
            self.ind[t.id] = p
        return p

    def feasible(self, terms):
        lits = []
        for t in terms:
            if t.op == "bconst":
                if not ir.cval(t):
                    return False
                continue
            p = self._indicator(t)
            if p is None:
                return feasible(terms, self.timeout_ms)
            lits.append(p)
        r = self.s.check(*lits)
        if r == z3.sat:
            return True
        if r == z3.unsat:
            return False
        return None


_bitop_memo = {}


def has_bitop_cached(t):
    r = _bitop_memo.get(t.id)
    if r is None:
        r = ir.has_bitop([t])
        _bitop_memo[t.id] = r
    return r
