"""Expression evaluation, attribute access, subscripts, dict model."""
from __future__ import annotations
import ast
from . import ir
from .ir import Term
from .values import *
from . import ops


class ExprMixin:
    # ------------------------------------------------------------------ dispatch
    def eval(self, e, env):
        m = getattr(self, "ex_" + type(e).__name__, None)
        if m is None:
            raise Unsupported("expression %s (line %s)" % (type(e).__name__, getattr(e, "lineno", "?")))
        return m(e, env)

    def ex_Constant(self, e, env):
        return e.value

    def ex_Name(self, e, env):
        return self.load_name(e.id, env)

    def ex_Tuple(self, e, env):
        return tuple(self.eval_elts(e.elts, env))

    def ex_List(self, e, env):
        return self.eval_elts(e.elts, env)

    def ex_Set(self, e, env):
        return set(self.eval_elts(e.elts, env))

    def eval_elts(self, elts, env):
        out = []
        for x in elts:
            if isinstance(x, ast.Starred):
                out.extend(self.iterate(self.eval(x.value, env)))
            else:
                out.append(self.eval(x, env))
        return out

    def ex_Dict(self, e, env):
        d = DictV()
        for k, v in zip(e.keys, e.values):
            if k is None:
                src = self.eval(v, env)
                for kk, vv in self.dict_items(src):
                    self.dict_set(d, kk, vv)
            else:
                self.dict_set(d, self.eval(k, env), self.eval(v, env))
        return d

    def ex_Attribute(self, e, env):
        return self.get_attr(self.eval(e.value, env), e.attr)

    def ex_Subscript(self, e, env):
        o = self.eval(e.value, env)
        if isinstance(o, (TypingDummy,)):
            return o
        if isinstance(o, ClassV) or isinstance(o, type):
            # Generic alias: Cache[UInt32], list[int], type[...]
            return o
        return self.subscript(o, self.eval_index(e.slice, env))

    def eval_index(self, s, env):
        if isinstance(s, ast.Slice):
            lo = self.eval(s.lower, env) if s.lower is not None else None
            hi = self.eval(s.upper, env) if s.upper is not None else None
            st = self.eval(s.step, env) if s.step is not None else None
            return ("slice", lo, hi, st)
        return self.eval(s, env)

    def ex_Lambda(self, e, env):
        return self.make_function(e, env)

    def ex_IfExp(self, e, env):
        c = ops.truth_val(self, self.eval(e.test, env))
        if isinstance(c, bool):
            return self.eval(e.body if c else e.orelse, env)
        if self.is_pure(e.body, env) and self.is_pure(e.orelse, env):
            # value-level merge of side-effect free branches (each evaluated under its own assumption
            # only matters for exceptions; pure expressions here cannot raise except through None arithmetic)
            try:
                a = self.eval(e.body, env)
                b = self.eval(e.orelse, env)
                m = ops.merge(c.t, a, b)
                if m is not NotImplemented:
                    return m
            except (PyRaise, Unsupported):
                pass
        if self.path.decide(c.t, "ifexp@%d" % e.lineno):
            return self.eval(e.body, env)
        return self.eval(e.orelse, env)

    _PURE_BUILTINS = {"int", "bool", "len", "isinstance", "type", "str", "abs", "min", "max"}

    def is_pure(self, e, env=None) -> bool:
        """No side effects: no calls except to side-effect-free builtins / fixedint constructors, no walrus,
        no comprehension.  (Exceptions are possible; speculative evaluation falls back to forking on them.)"""
        for n in ast.walk(e):
            if isinstance(n, ast.Call):
                f = n.func
                ok = False
                if isinstance(f, ast.Name):
                    if env is not None:
                        try:
                            v = self.load_name(f.id, env)
                        except PyRaise:
                            v = None
                        ok = isinstance(v, FixedType) or (isinstance(v, type) and v in (int, bool, str)) or \
                            (isinstance(v, Builtin) and v.name in self._PURE_BUILTINS)
                    else:
                        ok = f.id in ("int", "bool")
                elif isinstance(f, ast.Attribute) and isinstance(f.value, ast.Name) and f.value.id == "fixedint":
                    ok = True
                if not ok:
                    return False
            elif isinstance(n, (ast.NamedExpr, ast.ListComp, ast.GeneratorExp, ast.DictComp, ast.SetComp, ast.Await,
                                ast.Yield, ast.Lambda)):
                return False
        return True

    def ex_BoolOp(self, e, env):
        is_and = isinstance(e.op, ast.And)
        v = None
        for i, x in enumerate(e.values):
            v = self.eval(x, env)
            if i == len(e.values) - 1:
                return v
            t = ops.truth_val(self, v)
            if isinstance(t, bool):
                if t != is_and:
                    return v
                continue
            # symbolic: merge when the rest is pure and boolean-valued, else fork
            rest = e.values[i + 1:]
            if isinstance(v, SBool) and all(self.is_pure_bool(r, env) for r in rest):
                try:
                    acc = v.t
                    ok = True
                    for r in rest:
                        rv = self.eval(r, env)
                        if not isinstance(rv, (bool, SBool)):
                            ok = False
                            break
                        rt = ops.to_bterm(rv)
                        acc = ir.band_(acc, rt) if is_and else ir.bor_(acc, rt)
                    if ok:
                        return ops.from_term(acc)
                except (PyRaise, Unsupported):
                    pass
            d = self.path.decide(t.t, "boolop@%d" % e.lineno)
            if d != is_and:
                return v
        return v

    def is_pure_bool(self, e, env=None) -> bool:
        if not self.is_pure(e, env):
            return False
        if isinstance(e, ast.Compare):
            return all(isinstance(o, (ast.Eq, ast.NotEq, ast.Lt, ast.LtE, ast.Gt, ast.GtE, ast.Is, ast.IsNot)) for o in e.ops)
        if isinstance(e, ast.UnaryOp) and isinstance(e.op, ast.Not):
            return self.is_pure_bool(e.operand)
        if isinstance(e, ast.BoolOp):
            return all(self.is_pure_bool(v) for v in e.values)
        return False

    def ex_UnaryOp(self, e, env):
        v = self.eval(e.operand, env)
        if isinstance(v, TypingDummy):
            return TypingDummy("opaque")
        op = {ast.Not: "not", ast.Invert: "invert", ast.USub: "neg", ast.UAdd: "pos"}[type(e.op)]
        if op != "not" and isinstance(v, float):
            return -v if op == "neg" else v
        return ops.unary(self, op, v)

    _BIN = {ast.Add: "add", ast.Sub: "sub", ast.Mult: "mul", ast.FloorDiv: "floordiv", ast.Mod: "mod",
            ast.LShift: "lshift", ast.RShift: "rshift", ast.BitAnd: "and", ast.BitOr: "or", ast.BitXor: "xor",
            ast.Pow: "pow", ast.Div: "truediv"}

    def ex_BinOp(self, e, env):
        a = self.eval(e.left, env)
        b = self.eval(e.right, env)
        return self.binop(self._BIN[type(e.op)], a, b)

    def binop(self, op, a, b, inplace=False):
        if isinstance(a, TypingDummy) or isinstance(b, TypingDummy):
            return TypingDummy("opaque")
        if ops.is_numeric(a) and ops.is_numeric(b):
            return ops.arith(self, op, a, b)
        if isinstance(a, float) or isinstance(b, float):
            if isinstance(a, (int, float)) and isinstance(b, (int, float)):
                import operator
                f = {"add": operator.add, "sub": operator.sub, "mul": operator.mul, "truediv": operator.truediv,
                     "floordiv": operator.floordiv, "mod": operator.mod, "pow": operator.pow}[op]
                try:
                    return f(a, b)
                except ZeroDivisionError:
                    self.raise_builtin("ZeroDivisionError", "float division by zero")
            raise Unsupported("float arithmetic with symbolic operand")
        if op == "add":
            if isinstance(a, (str, SymStr)) and isinstance(b, (str, SymStr)):
                return mkstr(SymStr.of(a).parts + SymStr.of(b).parts)
            if isinstance(a, list) and isinstance(b, list):
                if inplace:
                    a.extend(b)
                    return a
                return a + b
            if isinstance(a, tuple) and isinstance(b, tuple):
                return a + b
        if op == "mul":
            if isinstance(a, (str, list, tuple)) and isinstance(b, int):
                return a * b
            if isinstance(b, (str, list, tuple)) and isinstance(a, int):
                return a * b
            if isinstance(a, (str, list, tuple)) and isinstance(b, SInt):
                return a * ops.concretize(self, b, "repeat count")
        if op == "or" and isinstance(a, type) or isinstance(a, TypingDummy) or isinstance(b, TypingDummy):
            return TypingDummy("union")
        if op == "or" and isinstance(a, set) and isinstance(b, set):
            return a | b
        if op == "mod" and isinstance(a, str):
            bb = b if isinstance(b, tuple) else (b,)
            if all(isinstance(x, (int, str, float)) for x in bb):
                return a % b
            raise Unsupported("%-formatting of symbolic values")
        if isinstance(a, Obj):
            m, _ = a.cls.lookup("__%s__" % op)
            if m is not None:
                return self.call(m, [a, b], {})
        if a is None or b is None:
            self.raise_builtin("TypeError", "unsupported operand type(s) for %s: %s and %s" % (op, self.type_name(a), self.type_name(b)))
        raise Unsupported("binary %s on %s and %s" % (op, type(a).__name__, type(b).__name__))

    def type_name(self, v):
        t = self.type_of(v)
        if isinstance(t, ClassV):
            return t.name
        if isinstance(t, FixedType):
            return t.name
        return getattr(t, "__name__", str(t))

    def ex_Compare(self, e, env):
        left = self.eval(e.left, env)
        acc = None
        for op, rn in zip(e.ops, e.comparators):
            right = self.eval(rn, env)
            r = ops.compare(self, type(op).__name__, left, right)
            if len(e.ops) == 1:
                return r
            if r is False:
                return False
            if r is not True:
                acc = r.t if acc is None else ir.band_(acc, r.t)
            left = right
        return True if acc is None else ops.from_term(acc)

    def ex_Call(self, e, env):
        # super() without arguments
        if isinstance(e.func, ast.Name) and e.func.id == "super" and not e.args:
            fe = env
            while fe is not None and (fe.func is None or fe.is_comp):
                fe = fe.parent
            if fe is None or fe.func.owner is None:
                raise Unsupported("super() outside method")
            return SuperV(fe.func.owner, fe.self_obj)
        f = self.eval(e.func, env)
        args = []
        for a in e.args:
            if isinstance(a, ast.Starred):
                args.extend(self.iterate(self.eval(a.value, env)))
            else:
                args.append(self.eval(a, env))
        kwargs = {}
        for k in e.keywords:
            if k.arg is None:
                for kk, vv in self.dict_items(self.eval(k.value, env)):
                    kwargs[kk] = vv
            else:
                kwargs[k.arg] = self.eval(k.value, env)
        return self.call(f, args, kwargs)

    def ex_NamedExpr(self, e, env):
        v = self.eval(e.value, env)
        t = env
        while t.is_comp and t.parent is not None:
            t = t.parent
        self.store_name(e.target.id, v, t)
        return v

    def ex_JoinedStr(self, e, env):
        parts = []
        for v in e.values:
            if isinstance(v, ast.Constant):
                parts.append(v.value)
            else:
                val = self.eval(v.value, env)
                spec = ""
                if v.format_spec is not None:
                    sp = self.ex_JoinedStr(v.format_spec, env)
                    if not isinstance(sp, str):
                        raise Unsupported("symbolic format spec")
                    spec = sp
                if v.conversion == ord("r"):
                    val = self.repr_(val)
                elif v.conversion == ord("s"):
                    val = self.str_(val)
                parts.extend(SymStr.of(self.format_(val, spec)).parts)
        return mkstr(parts)

    def ex_ListComp(self, e, env):
        out = []
        self.comp(e.generators, 0, Env({}, env, env.globals, func=env.func, is_comp=True), lambda ce: out.append(self.eval(e.elt, ce)))
        return out

    def ex_GeneratorExp(self, e, env):
        return self.ex_ListComp(e, env)

    def ex_SetComp(self, e, env):
        return set(self.ex_ListComp(e, env))

    def ex_DictComp(self, e, env):
        d = DictV()
        self.comp(e.generators, 0, Env({}, env, env.globals, func=env.func, is_comp=True),
                  lambda ce: self.dict_set(d, self.eval(e.key, ce), self.eval(e.value, ce)))
        return d

    def comp(self, gens, i, cenv, emit):
        if i == len(gens):
            emit(cenv)
            return
        g = gens[i]
        if i == 0:
            # first iterable is evaluated in the enclosing scope
            seq = self.iterate(self.eval(g.iter, cenv.parent))
        else:
            seq = self.iterate(self.eval(g.iter, cenv))
        cenv.self_obj = cenv.parent.self_obj if cenv.parent is not None else None
        for x in seq:
            self.assign(g.target, x, cenv)
            if all(ops.truth(self, self.eval(c, cenv), "comp-if") for c in g.ifs):
                self.comp(gens, i + 1, cenv, emit)

    # ------------------------------------------------------------------ iteration
    def iterate(self, v):
        if isinstance(v, LogList):
            return [self.loglist_get(v, j) for j in range(len(v))]
        if isinstance(v, list):
            return list(v)
        if isinstance(v, (tuple, set, frozenset, range)):
            return list(v)
        if isinstance(v, str):
            return list(v)
        if isinstance(v, SymStr):
            ch = v.chars()
            if ch is None:
                raise Unsupported("iteration over string of unknown length")
            return [c if isinstance(c, str) else SymStr([c]) for c in ch]
        if isinstance(v, DictV):
            return [k for k, _ in self.dict_items(v)]
        if isinstance(v, Obj):
            if v.items is not None:
                return list(v.items)
            if v.cls is self.builtins.get("#iter"):
                return list(v.fields["seq"])
            m, _ = v.cls.lookup("__iter__")
            if m is not None:
                return self.iterate(self.call(m, [v], {}))
        if isinstance(v, ClassV) and v.is_enum:
            return list(v.enum_members)
        raise Unsupported("iteration over %r" % (type(v).__name__,))

    # ------------------------------------------------------------------ attributes
    def get_attr(self, o, name):
        if isinstance(o, Obj):
            if name in o.fields:
                return o.fields[name]
            v, owner = o.cls.lookup(name)
            if owner is not None:
                return self.bind(v, o, o.cls)
            if name == "__class__":
                return o.cls
            if name == "__dict__":
                d = DictV()
                for k, x in o.fields.items():
                    self.dict_set(d, k, x)
                return d
            if o.items is not None:
                return self.native_method(o.items, name, o)
            if name in ("__repr__", "__str__", "__eq__", "__init__"):
                return self.native_method(o, name, o)
            self.raise_builtin("AttributeError", "'%s' object has no attribute '%s'" % (o.cls.name, name))
        if isinstance(o, ClassV):
            v, owner = o.lookup(name)
            if owner is not None:
                if isinstance(v, ClassM):
                    return BoundMethod(v.f, o)
                if isinstance(v, StaticM):
                    return v.f
                return v
            if name == "__name__":
                return o.name
            if name == "__members__" and o.is_enum:
                d = DictV()
                for m in o.enum_members:
                    self.dict_set(d, m.fields["name"], m)
                return d
            self.raise_builtin("AttributeError", "type object '%s' has no attribute '%s'" % (o.name, name))
        if isinstance(o, ModuleV):
            if name in o.ns:
                return o.ns[name]
            if getattr(o, "lenient", False):
                return TypingDummy(name)
            self.raise_builtin("AttributeError", "module '%s' has no attribute '%s'" % (o.name, name))
        if isinstance(o, SuperV):
            mro = o.obj.cls.mro if isinstance(o.obj, Obj) else o.obj.mro
            i = mro.index(o.cls)
            for c in mro[i + 1:]:
                if name in c.ns:
                    return self.bind(c.ns[name], o.obj, c)
            if isinstance(o.obj, Obj) and o.obj.items is not None:
                return self.native_method(o.obj.items, name, o.obj)
            if isinstance(o.obj, Obj) and name in ("__init__", "__repr__", "__str__", "__eq__"):
                return self.native_method(o.obj, name, o.obj)
            self.raise_builtin("AttributeError", "'super' object has no attribute '%s'" % name)
        if isinstance(o, FixedType):
            if name in ("width", "signed", "minval", "maxval"):
                return getattr(o, name)
            if name == "__name__":
                return o.name
            raise Unsupported("fixedint type attribute %s" % name)
        if isinstance(o, FixedV):
            if name in ("width", "signed", "minval", "maxval"):
                return getattr(o.ft, name)
            return self.native_method(o, name, o)
        if isinstance(o, TypingDummy):
            return TypingDummy(o.name + "." + name)
        if isinstance(o, range) and name in ("start", "stop", "step"):
            return getattr(o, name)
        if isinstance(o, (FuncV, BoundMethod)) and name == "__name__":
            return o.name if isinstance(o, FuncV) else o.func.name
        return self.native_method(o, name, o)

    def bind(self, v, o, cls):
        if isinstance(v, FuncV) or isinstance(v, Builtin):
            return BoundMethod(v, o)
        if isinstance(v, ClassM):
            return BoundMethod(v.f, o.cls if isinstance(o, Obj) else o)
        if isinstance(v, StaticM):
            return v.f
        if isinstance(v, PropertyV):
            return self.call(v.fget, [o], {})
        return v

    def set_attr(self, o, name, v):
        if isinstance(o, Obj):
            o.fields[name] = v
            return
        if isinstance(o, ClassV):
            o.ns[name] = v
            return
        if isinstance(o, ModuleV):
            o.ns[name] = v
            return
        raise Unsupported("attribute assignment on %r" % (type(o).__name__,))

    # ------------------------------------------------------------------ subscripts
    def norm_slice(self, k, n):
        _, lo, hi, st = k
        lo = ops.concretize(self, lo, "slice bound") if lo is not None else None
        hi = ops.concretize(self, hi, "slice bound") if hi is not None else None
        st = ops.concretize(self, st, "slice step") if st is not None else None
        return slice(lo, hi, st)

    def subscript(self, o, k):
        if isinstance(o, Obj):
            m, _ = o.cls.lookup("__getitem__")
            if m is not None:
                return self.call(m, [o, k if not (isinstance(k, tuple) and k and k[0] == "slice") else self.norm_slice(k, 0)], {})
            if o.items is not None:
                return self.subscript(o.items, k)
            raise Unsupported("subscript on %s" % o.cls.name)
        is_slice = isinstance(k, tuple) and len(k) == 4 and k[0] == "slice"
        if isinstance(o, (list, tuple)):
            if is_slice:
                if isinstance(o, LogList):
                    return self.iterate(o)[self.norm_slice(k, len(o))]
                return o[self.norm_slice(k, len(o))]
            return self.seq_get(o, k)
        if isinstance(o, DictV):
            return self.dict_get(o, k)
        if isinstance(o, str):
            if is_slice:
                return o[self.norm_slice(k, len(o))]
            i = ops.int_of(k)
            if isinstance(i, int):
                try:
                    return o[i]
                except IndexError:
                    self.raise_builtin("IndexError", "string index out of range")
            if "0123456789ABCDEF".startswith(o) and len(o) >= 2:
                t = i.t
                if not self.path.decide(ir.band_(ir.le(0, t), ir.lt(t, len(o))), "string-index-in-range"):
                    if self.path.decide(ir.band_(ir.le(-len(o), t), ir.lt(t, 0)), "string-index-negative"):
                        raise Unsupported("negative symbolic string index")
                    self.raise_builtin("IndexError", "string index out of range")
                return SymStr([("bit" if len(o) == 2 else "hexd", ir.mod(t, 16) if len(o) == 16 else t)])
            raise Unsupported("symbolic index into string")
        if isinstance(o, SymStr):
            ch = o.chars()
            if ch is None:
                raise Unsupported("subscript of string with unknown length")
            if is_slice:
                return mkstr(ch[self.norm_slice(k, len(ch))])
            i = ops.concretize(self, k, "string index")
            return mkstr([ch[i]])
        if isinstance(o, FixedV):
            if is_slice:
                _, lo, hi, st = k
                if st is not None:
                    self.raise_builtin("ValueError", "slice step unsupported")
                w = o.ft.width
                start = 0 if lo is None else (lo + w if lo < 0 else lo)
                stop = w if hi is None else (hi + w if hi < 0 else hi)
                if not (0 <= start < stop <= w):
                    self.raise_builtin("IndexError", "invalid slice")
                x = ops.int_of(o)
                sh = (x >> start) if isinstance(x, int) else ops.from_term(ir.shr_const(x.t, start))
                return ops.mk_fixed(FixedType(stop - start, False), sh)
            raise Unsupported("single-bit index on fixedint")
        if isinstance(o, range):
            if is_slice:
                return o[self.norm_slice(k, len(o))]
            i = ops.concretize(self, k, "range index")
            return o[i]
        raise Unsupported("subscript on %r" % (type(o).__name__,))

    def loglist_get(self, seq, k):
        i = ops.int_of(k)
        n = len(seq)
        if isinstance(i, int):
            j = i + n if i < 0 else i
            if not (0 <= j < n):
                self.raise_builtin("IndexError", "list index out of range")
            val = list.__getitem__(seq, j)
            jt = ir.const(j)
        else:
            t = i.t
            if t.lo is None or t.lo < 0:
                if self.path.decide(ir.lt(t, 0), "negative-index"):
                    raise Unsupported("negative symbolic index into a logged list")
            if not self.path.decide(ir.lt(t, n), "index-in-range"):
                self.raise_builtin("IndexError", "list index out of range")
            jt = t
            if seq.uf is not None:
                raw = ir.app(seq.uf, t, seq.lo, seq.hi)
                val = FixedV(seq.wrap, raw) if seq.wrap is not None else SInt(raw)
            else:
                val = list.__getitem__(seq, n - 1)
                for j in range(n - 2, -1, -1):
                    m = ops.merge(ir.eq(t, j), list.__getitem__(seq, j), val)
                    if m is NotImplemented:
                        raise Unsupported("logged list with non-mergeable elements")
                    val = m
        for idx, v in seq.log:
            c = ir.eq(ir.lift(idx), jt)
            if c.op == "bconst":
                if ir.cval(c):
                    val = v
                continue
            m = ops.merge(c, v, val)
            if m is NotImplemented:
                if self.path.decide(c, "logged-list-alias"):
                    val = v
                continue
            val = m
        return val

    def loglist_set(self, seq, k, v):
        i = ops.int_of(k)
        n = len(seq)
        if isinstance(i, int):
            j = i + n if i < 0 else i
            if not (0 <= j < n):
                self.raise_builtin("IndexError", "list assignment index out of range")
            if not seq.log and seq.uf is None:
                list.__setitem__(seq, j, v)
            else:
                # a UF-backed base is read through the function for symbolic indices, so it must never be
                # modified in place: every write goes to the log
                seq.log.append((j, v))
            return
        t = i.t
        if t.lo is None or t.lo < 0:
            if self.path.decide(ir.lt(t, 0), "negative-index"):
                raise Unsupported("negative symbolic index into a logged list")
        if not self.path.decide(ir.lt(t, n), "index-in-range"):
            self.raise_builtin("IndexError", "list assignment index out of range")
        seq.log.append((t, v))

    def seq_get(self, seq, k):
        if isinstance(seq, LogList):
            return self.loglist_get(seq, k)
        i = ops.int_of(k)
        n = len(seq)
        if isinstance(i, int):
            try:
                return seq[i]
            except IndexError:
                self.raise_builtin("IndexError", "list index out of range")
        t = i.t
        # out-of-range?
        inr = ir.band_(ir.le(-n, t), ir.lt(t, n))
        if not self.path.decide(inr, "index-in-range"):
            self.raise_builtin("IndexError", "list index out of range")
        cands = [j for j in range(-n, n) if (t.lo is None or j >= t.lo) and (t.hi is None or j <= t.hi)]
        # try value-level merge
        if all(j >= 0 for j in cands) or all(j < 0 for j in cands):
            acc = seq[cands[-1]]
            ok = True
            for j in reversed(cands[:-1]):
                m = ops.merge(ir.eq(t, j), seq[j], acc)
                if m is NotImplemented:
                    ok = False
                    break
                acc = m
            if ok:
                return acc
        kk = self.path.choose([ir.eq(t, j) for j in cands], "index")
        return seq[cands[kk]]

    def store_subscript(self, o, k, v):
        if isinstance(o, Obj):
            m, _ = o.cls.lookup("__setitem__")
            if m is not None:
                self.call(m, [o, k, v], {})
                return
            if o.items is not None:
                return self.store_subscript(o.items, k, v)
            raise Unsupported("item assignment on %s" % o.cls.name)
        if isinstance(o, list):
            if isinstance(k, tuple) and len(k) == 4 and k[0] == "slice":
                o[self.norm_slice(k, len(o))] = self.iterate(v)
                return
            return self.seq_set(o, k, v)
        if isinstance(o, DictV):
            return self.dict_set(o, k, v)
        raise Unsupported("item assignment on %r" % (type(o).__name__,))

    def seq_set(self, seq, k, v):
        if isinstance(seq, LogList):
            return self.loglist_set(seq, k, v)
        i = ops.int_of(k)
        n = len(seq)
        if isinstance(i, int):
            try:
                seq[i] = v
            except IndexError:
                self.raise_builtin("IndexError", "list assignment index out of range")
            return
        t = i.t
        inr = ir.band_(ir.le(-n, t), ir.lt(t, n))
        if not self.path.decide(inr, "index-in-range"):
            self.raise_builtin("IndexError", "list assignment index out of range")
        cands = [j for j in range(-n, n) if (t.lo is None or j >= t.lo) and (t.hi is None or j <= t.hi)]
        merged = []
        for j in cands:
            m = ops.merge(ir.eq(t, j), v, seq[j])
            if m is NotImplemented:
                merged = None
                break
            merged.append(m)
        if merged is not None and (all(j >= 0 for j in cands) or all(j < 0 for j in cands)):
            for j, m in zip(cands, merged):
                seq[j] = m
            return
        kk = self.path.choose([ir.eq(t, j) for j in cands], "index")
        seq[cands[kk]] = v

    def del_subscript(self, o, k):
        if isinstance(o, list):
            del o[ops.concretize(self, k, "index")]
            return
        if isinstance(o, DictV):
            if o.sym or o.base is not None or ops.is_sym(k):
                raise Unsupported("del on symbolic dict")
            if k not in o.index:
                self.raise_builtin("KeyError", k)
            pos = o.index.pop(k)
            del o.entries[pos]
            o.index = {kk: i for i, (kk, _) in enumerate(o.entries)}
            return
        raise Unsupported("del item")

    # ------------------------------------------------------------------ dict model
    def _key_concrete(self, k):
        return not ops.is_sym(k) and not isinstance(k, (SymStr,))

    def _norm_key(self, k):
        if isinstance(k, FixedV) and isinstance(k.v, int):
            return k.v
        if isinstance(k, FixedV):
            return SInt(k.v)
        return k

    def dict_set(self, d: DictV, k, v):
        k = self._norm_key(k)
        if self._key_concrete(k) and not d.sym:
            try:
                pos = d.index.get(k)
            except TypeError:
                raise Unsupported("unhashable dict key")
            if pos is not None:
                d.entries[pos][1] = v
            else:
                d.index[k] = len(d.entries)
                d.entries.append([k, v])
            return
        # symbolic key (or dict already symbolic): append a write; reads scan latest first
        if not ops.is_numeric(k):
            raise Unsupported("non-integer key in symbolic dict")
        d.sym = True
        d.entries.append([k, v])

    def _key_eq(self, a, b):
        if ops.is_numeric(a) and ops.is_numeric(b):
            return ir.eq(ops.to_term(a), ops.to_term(b))
        e = ops.py_eq(self, a, b)
        return ir.lift(e) if isinstance(e, bool) else e.t

    def dict_lookup(self, d: DictV, k):
        """-> (present: Term BOOL, value or None). May fork when values are not mergeable."""
        k = self._norm_key(k)
        if self._key_concrete(k) and not d.sym and d.base is None:
            try:
                pos = d.index.get(k)
            except TypeError:
                raise Unsupported("unhashable dict key")
            if pos is None:
                return ir.FALSE, None
            return ir.TRUE, d.entries[pos][1]
        if not ops.is_numeric(k):
            if d.base is None and not d.sym:
                return ir.FALSE, None
            raise Unsupported("non-integer key lookup in symbolic dict")
        kt = ops.to_term(k)
        # base
        if d.base is not None:
            b = d.base
            pres = ir.TRUE if b.total else ir.bapp(b.name + "#p", kt)
            raw = ir.app(b.name, kt, b.lo, b.hi)
            val = FixedV(b.wrap, raw) if b.wrap is not None else SInt(raw)
        else:
            pres, val = ir.FALSE, None
        # scan writes oldest -> newest, building ite
        for ek, ev in d.entries:
            c = self._key_eq(ek, k)
            if c.op == "bconst":
                if ir.cval(c):
                    pres, val = ir.TRUE, ev
                continue
            if val is None:
                # not mergeable with "absent": fork
                if self.path.decide(c, "dict-key"):
                    pres, val = ir.TRUE, ev
                continue
            m = ops.merge(c, ev, val)
            if m is NotImplemented:
                if self.path.decide(c, "dict-key"):
                    pres, val = ir.TRUE, ev
                continue
            pres = ir.bor_(c, pres)
            val = m
        return pres, val

    def dict_get(self, d: DictV, k):
        pres, val = self.dict_lookup(d, k)
        if not self.path.decide(pres, "key-present"):
            if d.default_factory is not None:
                v = self.call(d.default_factory, [], {})
                self.dict_set(d, k, v)
                return v
            raise PyRaise(self.instantiate(self.builtins["KeyError"], [k], {}))
        return val

    def dict_contains(self, d: DictV, k):
        pres, _ = self.dict_lookup(d, k)
        return ops.from_term(pres)

    def dict_items(self, d):
        if isinstance(d, dict):
            return list(d.items())
        if not isinstance(d, DictV):
            raise Unsupported("items of %r" % (type(d).__name__,))
        if d.base is not None:
            raise Unsupported("iteration over a havocked dict")
        if d.sym:
            raise Unsupported("iteration over a dict with symbolic keys")
        return [(k, v) for k, v in d.entries]
