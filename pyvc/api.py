"""The contract API, native (CPython) implementation.

A contract file imports ``from pyvc.api import *``.  Run natively, ``sym_*`` return the values of
the current concrete model, ``check`` evaluates its condition on the real objects, so a solver
counter-model is replayed against the real code of /repo by simply calling the unit function.
"""
from __future__ import annotations
import copy

__all__ = ["unit", "native", "sym_int", "sym_bool", "sym_fixed", "sym_map", "sym_list", "assume", "check", "reach", "note",
           "implies", "ite", "all_of", "split", "run_slice", "run_loop_part", "sym_str", "stub", "unstub", "snapshot", "same", "check_same", "require"]

UNITS = {}
MODEL = {}
INPUTS = {}       # name -> declaration, recorded on every native run
LAZY = [None]     # random.Random instance => sym_map returns lazily materialised pseudo-random maps (adjudication mode)
LAZY_MAPS = {}
RESULTS = []      # (name, bool)
NOTES = {}
REACHED = []


class AssumeFailed(Exception):
    pass


def reset(model):
    MODEL.clear()
    MODEL.update(model)
    del RESULTS[:]
    NOTES.clear()
    del REACHED[:]
    INPUTS.clear()
    LAZY_MAPS.clear()
    for (cls, meth) in list(_STUBBED):
        unstub(cls, meth)


def unit(name, **meta):
    def deco(f):
        UNITS[name] = (f, meta)
        return f
    return deco


def native():
    return True


def _default(lo, hi):
    if lo is not None and lo > 0:
        return lo
    if hi is not None and hi < 0:
        return hi
    return 0


def sym_int(name, lo=None, hi=None):
    INPUTS[name] = ("int", lo, hi)
    v = MODEL.get(name)
    if v is None:
        v = _default(lo, hi)
    return int(v)


def sym_bool(name):
    INPUTS[name] = ("bool",)
    return bool(MODEL.get(name, False))


def sym_fixed(name, ft):
    INPUTS[name] = ("int", ft.minval, ft.maxval)
    return ft(int(MODEL.get(name, 0)))


def sym_list(name, n, ft):
    INPUTS[name] = ("list", n, ft.minval, ft.maxval)
    tbl = MODEL.get(name)
    vals = tbl[0] if isinstance(tbl, tuple) else (tbl or {})
    return [ft(int(vals.get(j, 0))) for j in range(n)]


class _LazyMap(dict):
    """dict whose pre-state content is decided pseudo-randomly (deterministically per run seed, map name and key) the
    first time a key is looked at (adjudication mode).  Writes are logged with a version counter so that snapshots
    compare maps extensionally (value of every touched key at the snapshot's version), not by the set of keys that
    happen to have been materialised."""

    def __init__(self, name, wrap, lo, hi, rnd):
        dict.__init__(self)
        self._n, self._wrap, self._lo, self._hi = name, wrap, lo, hi
        self._seed = rnd.getrandbits(48) if not hasattr(rnd, "_pyvc_seed") else rnd._pyvc_seed
        rnd._pyvc_seed = self._seed
        self._seen = {}        # key -> present in the pre-state?
        self._pre = {}         # key -> pre-state value (if present)
        self._writes = []      # (key, value) in order

    def _touch(self, k):
        if k not in self._seen:
            import random as _r
            rr = _r.Random("%s|%s|%s" % (self._seed, self._n, k))
            present = rr.random() < 0.7
            self._seen[k] = present
            if present:
                lo = self._lo if self._lo is not None else 0
                hi = self._hi if self._hi is not None else 255
                v = rr.choice([lo, hi, rr.randint(lo, hi), rr.randint(lo, hi)])
                self._pre[k] = v
                if not dict.__contains__(self, k):
                    dict.__setitem__(self, k, self._wrap(v) if self._wrap is not None else v)
        return None

    def __contains__(self, k):
        self._touch(k)
        return dict.__contains__(self, k)

    def __getitem__(self, k):
        self._touch(k)
        return dict.__getitem__(self, k)

    def get(self, k, d=None):
        self._touch(k)
        return dict.get(self, k, d)

    def __setitem__(self, k, v):
        self._touch(k)
        self._writes.append((k, v))
        dict.__setitem__(self, k, v)

    def value_at(self, k, version):
        """(present, value) of key k after the first `version` writes"""
        self._touch(k)
        for kk, vv in reversed(self._writes[:version]):
            if kk == k:
                return True, int(vv)
        return (True, self._pre[k]) if self._seen[k] else (False, None)


def sym_map(name, wrap=None, lo=None, hi=None, keys_lo=None, keys_hi=None):
    if wrap is not None:
        lo, hi = wrap.minval, wrap.maxval
    INPUTS[name] = ("map", lo, hi)
    if LAZY[0] is not None:
        m = _LazyMap(name, wrap, lo, hi, LAZY[0])
        LAZY_MAPS[name] = (m, {})
        return m
    tbl = MODEL.get(name)
    ptbl = MODEL.get(name + "#p")
    vals = tbl[0] if tbl else {}
    pres = ptbl[0] if ptbl else {}
    d = {}
    for k, p in pres.items():
        if p:
            v = vals.get(k, _default(lo, hi))
            d[int(k)] = wrap(v) if wrap is not None else v
    return d


def assume(c):
    if not c:
        raise AssumeFailed()


def check(name, c):
    RESULTS.append((name, bool(c)))


def reach(name):
    REACHED.append(name)


def note(k, v):
    NOTES[k] = v


def implies(p, q):
    return (not p) or bool(q)


def ite(c, a, b):
    return a if c else b


def require(what, cond):
    """harness-structure guard: the contract's picture of the source (slice found, call captured, ...) must hold,
    otherwise the unit is UNDECIDED -- it says nothing about the code, so it is never a violation"""
    from . import slices
    if not cond:
        raise slices.SliceMismatch(what)


def run_slice(module, qualname, if_test, env0, keep, capture_calls=(), nth=0):
    import ast as _ast
    import importlib
    from . import slices
    m = importlib.import_module(module)
    with open(m.__file__) as f:
        tree = _ast.parse(f.read())
    body = slices.select(tree, qualname, if_test, nth)
    items = slices.keep_statements(body, set(keep), tuple(capture_calls), tuple(env0))
    env = dict(env0)
    tests, captured = [], []
    g = m.__dict__
    for kind, node in items:
        if kind == "stmt":
            try:
                exec(compile(_ast.fix_missing_locations(_ast.Module([node], [])), "<slice>", "exec"), g, env)
            except (NameError, AttributeError) as e:
                # the sliced statement needs context the slice dropped (a helper on self, a token): harness mismatch
                raise slices.SliceMismatch("sliced statement `%s` needs dropped context: %s" % (_ast.unparse(node)[:80], e))
        else:
            try:
                v = eval(compile(_ast.fix_missing_locations(_ast.Expression(node)), "<slice>", "eval"), g, env)
            except Exception:
                v = None
            (tests if kind == "test" else captured).append(v)
    env["__tests__"] = tests
    env["__captured__"] = captured
    env["__n_statements__"] = len([1 for kind, _ in items if kind == "stmt"])
    for kname in keep:
        if kname not in env:
            raise slices.SliceMismatch("the slice does not define `%s`" % kname)
    return env


def run_loop_part(module, qualname, case_value, part, env0, nth=0):
    import ast as _ast
    import importlib
    from . import slices
    m = importlib.import_module(module)
    with open(m.__file__) as f:
        tree = _ast.parse(f.read())
    pre, loop, post = slices.loop_parts(tree, qualname, case_value, nth)
    env = dict(env0)
    g = m.__dict__
    out = {}

    def run(stmts):
        exec(compile(_ast.fix_missing_locations(_ast.Module(list(stmts), [])), "<loop>", "exec"), g, env)
    try:
        if part == "names":
            for kk, vv in slices.loop_names(pre, loop, post, list(g)).items():
                out["__%s__" % kk] = list(vv)
        elif part == "init":
            run(pre)
        elif part == "step":
            go = bool(eval(compile(_ast.fix_missing_locations(_ast.Expression(loop.test)), "<loop>", "eval"), g, env))
            if go:
                run(loop.body)
            out["__continue__"] = go
        elif part == "exit":
            out["__return__"] = eval(compile(_ast.fix_missing_locations(_ast.Expression(post[0].value)), "<loop>", "eval"), g, env)
        else:
            raise ValueError(part)
    except (NameError, AttributeError, TypeError, KeyError) as e:
        raise slices.SliceMismatch("loop part `%s` needs context the harness does not supply: %r" % (part, e))
    out.update(env)
    return out


def sym_str(name):
    INPUTS[name] = ("int", 0, 10 ** 6)
    v = int(MODEL.get(name, 0) or 0)
    return "" if v == 0 else "".join(chr(97 + int(d)) for d in str(v))


def split(x):
    return x


def all_of(xs):
    return all(xs)


_STUBBED = {}


def stub(cls, meth, fn):
    """replace cls.meth by the harness function fn (a real monkey patch natively; undone by unstub / the next reset)"""
    if (cls, meth) not in _STUBBED:
        _STUBBED[(cls, meth)] = cls.__dict__.get(meth, _STUBBED)      # _STUBBED = "was inherited"
    setattr(cls, meth, fn)
    return None


def unstub(cls, meth):
    if (cls, meth) in _STUBBED:
        orig = _STUBBED.pop((cls, meth))
        if orig is _STUBBED:
            delattr(cls, meth)
        else:
            setattr(cls, meth, orig)
    return None


class _Snap:
    def __init__(self, tree):
        self.tree = tree


def _snap(v, seen, ignore):
    import enum
    import types
    if isinstance(v, (int, str, float, bool, bytes)) or v is None:
        return ("val", type(v).__name__ if not isinstance(v, int) or isinstance(v, bool) else "int", v if not isinstance(v, int) or isinstance(v, bool) else int(v))
    if isinstance(v, enum.Enum):
        return ("enum", type(v).__name__, v.name)
    if isinstance(v, (type, types.FunctionType, types.MethodType, types.BuiltinFunctionType, types.ModuleType)):
        return ("id", id(v) if not isinstance(v, types.MethodType) else (id(v.__func__), id(v.__self__)))
    r = seen.ref(id(v))
    if r is not None:
        return ("ref", r)
    if isinstance(v, tuple):
        return ("tuple", [_snap(x, seen, ignore) for x in v])
    idx = seen.new(id(v))
    if isinstance(v, _LazyMap):
        return ("lazymap", idx, v, len(v._writes))
    if isinstance(v, dict):
        return ("dict", idx, [(k, _snap(x, seen, ignore)) for k, x in v.items()])
    if isinstance(v, (set, frozenset)):
        return ("set", frozenset(v))
    if isinstance(v, list) and type(v) is list:
        return ("list", idx, [_snap(x, seen, ignore) for x in v])
    flds = {}
    d = getattr(v, "__dict__", None)
    if d is not None:
        from .fields import baseline
        pkg = (type(v).__module__ or "").startswith("architecture_simulator")
        for f, x in d.items():
            if f in ignore:
                continue
            if pkg and f not in baseline():
                seen.depth_u += 1           # (see api_sym.snap: a numbering of its own below unmodelled attributes)
                try:
                    flds[f] = _snap(x, seen, ignore)
                finally:
                    seen.depth_u -= 1
            else:
                flds[f] = _snap(x, seen, ignore)
    items = [_snap(x, seen, ignore) for x in list.__iter__(v)] if isinstance(v, list) else None
    return ("obj", type(v).__name__, idx, flds, items)


def snapshot(*roots, ignore=()):
    from .fields import Seen
    seen = Seen()
    return _Snap(tuple(_snap(x, seen, set(ignore)) for x in roots))


def _diff(x, y, path, out):
    if x[0] != y[0]:
        out.append(path)
        return
    tag = x[0]
    if tag in ("val", "ref", "id", "set", "enum"):
        if tag == "val" and x[1] != y[1] and not ({x[1], y[1]} <= {"int"}):
            out.append(path)
        elif x[1:] != y[1:]:
            out.append(path)
    elif tag == "obj":
        if x[1] != y[1] or x[2] != y[2] or (x[4] is None) != (y[4] is None):
            out.append(path)
            return
        for f in sorted(set(x[3]) ^ set(y[3])):
            out.append(path + "." + f)
        for f in x[3]:
            if f in y[3]:
                _diff(x[3][f], y[3][f], path + "." + f, out)
        if x[4] is not None:
            if len(x[4]) != len(y[4]):
                out.append(path + "[]")
                return
            for i, (p, q) in enumerate(zip(x[4], y[4])):
                _diff(p, q, "%s[%d]" % (path, i), out)
    elif tag in ("list", "tuple"):
        xs, ys = x[-1], y[-1]
        if len(xs) != len(ys) or (tag == "list" and x[1] != y[1]):
            out.append(path)
            return
        for i, (p, q) in enumerate(zip(xs, ys)):
            _diff(p, q, "%s[%d]" % (path, i), out)
    elif tag == "lazymap":
        if x[1] != y[1] or x[2]._n != y[2]._n:
            out.append(path + ".keys")
            return
        keys = set(x[2]._seen) | set(y[2]._seen) | {k for k, _ in x[2]._writes} | {k for k, _ in y[2]._writes}
        for k in sorted(keys):
            if x[2].value_at(k, x[3]) != y[2].value_at(k, y[3]):
                out.append("%s[%r]" % (path, k))
    elif tag == "dict":
        if x[1] != y[1] or [k for k, _ in x[2]] != [k for k, _ in y[2]]:
            # key *order* is not part of the symbolic comparison for maps with symbolic keys
            if x[1] != y[1] or set(k for k, _ in x[2]) != set(k for k, _ in y[2]):
                out.append(path + ".keys")
                return
        dy = dict(y[2])
        for k, p in x[2]:
            kr = "<class %s:%s>" % (k.__module__, k.__qualname__) if isinstance(k, type) else repr(k)     # (as the executor prints classes)
            _diff(p, dy[k], "%s[%s]" % (path, kr), out)


def same(a, b):
    out = []
    _diff(("tuple", list(a.tree)), ("tuple", list(b.tree)), "", out)
    return not out


def check_same(name, a, b):
    out = []
    _diff(("tuple", list(a.tree)), ("tuple", list(b.tree)), "", out)
    if not out:
        RESULTS.append((name, True))
    for p in out:
        RESULTS.append(("%s@%s" % (name, p), False))
