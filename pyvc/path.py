"""Path exploration by re-execution with a decision trail."""
from __future__ import annotations
from . import ir, lower
from .values import AbortPath

_feas_cache: dict = {}


def clear_cache():
    _feas_cache.clear()


class Entry:
    __slots__ = ("options", "i", "what")

    def __init__(self, options, what):
        self.options = options   # feasible option indices
        self.i = 0
        self.what = what


class Path:
    def __init__(self, trail, feas_timeout_ms=3000, oracle=None):
        self.oracle = oracle
        self.trail = trail
        self.pos = 0
        self.pc = []              # list of Terms (conjunction)
        self.pcset = set()
        self.known = {}           # term id -> constant value fixed by the path condition
        self.feas_timeout_ms = feas_timeout_ms
        self.checks = []          # (name, Term|bool)
        self.notes = {}
        self.solver_calls = 0
        self.unknown_feasibility = 0

    # -- path condition
    def _add(self, t):
        if t.op == "bconst":
            if not ir.cval(t):
                raise AbortPath()
            return
        if t.id not in self.pcset:
            self.pcset.add(t.id)
            self.pc.append(t)
            if t.op == "eq" and t.args[1].op == "const":
                self.known[t.args[0].id] = ir.cval(t.args[1])

    def _feasible(self, t):
        if t.op == "bconst":
            return bool(ir.cval(t))
        if t.id in self.pcset:
            return True
        neg = ir.bnot_(t)
        if neg.id in self.pcset:
            return False
        key = (frozenset(self.pcset), t.id)
        r = _feas_cache.get(key)
        if r is None:
            self.solver_calls += 1
            if self.oracle is not None:
                r = self.oracle.feasible(self.pc + [t])
            else:
                r = lower.feasible(self.pc + [t], self.feas_timeout_ms)
            if r is None:
                self.unknown_feasibility += 1
                r = True      # explore; an infeasible path only adds vacuous obligations
            _feas_cache[key] = r
        return r

    def assume(self, t):
        t = ir.lift(t)
        if not self._feasible(t):
            raise AbortPath()
        self._add(t)

    def choose(self, conds, what="choice") -> int:
        """Pick one of mutually exclusive, jointly exhaustive conditions; all feasible ones get explored."""
        if self.pos < len(self.trail):
            e = self.trail[self.pos]
        else:
            opts = [k for k, c in enumerate(conds) if self._feasible(c)]
            if not opts:
                raise AbortPath()
            e = Entry(opts, what)
            self.trail.append(e)
        self.pos += 1
        k = e.options[e.i]
        self._add(conds[k])
        return k

    def decide(self, cond, what="branch") -> bool:
        cond = ir.lift(cond)
        if cond.op == "bconst":
            return bool(ir.cval(cond))
        if cond.id in self.pcset:
            return True
        n = ir.bnot_(cond)
        if n.id in self.pcset:
            return False
        return self.choose([cond, n], what) == 0


def explore(run, max_paths=200000, feas_timeout_ms=3000):
    """Calls run(path) once per feasible path; yields (path, outcome) where outcome is what run returned."""
    trail = []
    n = 0
    oracle = lower.FeasSolver(feas_timeout_ms)
    while True:
        p = Path(trail, feas_timeout_ms, oracle)
        try:
            out = run(p)
        except AbortPath:
            out = ("aborted", None)
        yield p, out
        n += 1
        # drop decisions made after the point this run reached (cannot happen: trail only grows in-run)
        del trail[p.pos:]
        while trail and trail[-1].i + 1 >= len(trail[-1].options):
            trail.pop()
        if not trail:
            return
        trail[-1].i += 1
        if n >= max_paths:
            yield None, ("path-limit", n)
            return
