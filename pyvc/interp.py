"""AST interpreter over symbolic values: the executor that runs /repo's real function bodies.

Source is re-read from disk on every run; what is dropped from the text: type annotations (never
evaluated), docstrings, ``if TYPE_CHECKING:`` blocks, ``__future__`` imports.
"""
from __future__ import annotations
import ast
import os
from . import ir
from .ir import Term
from .values import *
from . import ops
from .exprs import ExprMixin
from .builtins_ import BuiltinMixin
from .methods import MethodMixin

RET, BRK, CONT = "return", "break", "continue"


class Interp(ExprMixin, BuiltinMixin, MethodMixin):
    def __init__(self, roots, while_bound=64):
        """roots: list of (package prefix, directory) searched for modules, in order."""
        self.roots = roots
        self.modules = {}
        self.sources = {}        # module name -> path
        from .path import Path
        self.path = Path([])
        self.while_bound = while_bound
        self.depth = 0
        self.native_modules = {}
        self.stubs = {}          # (class qualname, method) -> callable value, for contract abstraction
        self.trace_calls = None  # optional list collecting qualified names of executed functions
        self.init_builtins()

    # ------------------------------------------------------------------ modules
    def find_module(self, name):
        rel = name.replace(".", "/")
        for prefix, d in self.roots:
            if name == prefix or name.startswith(prefix + "."):
                base = os.path.join(d, rel)
                if os.path.isfile(base + ".py"):
                    return base + ".py", False
                if os.path.isdir(base):
                    init = os.path.join(base, "__init__.py")
                    return (init if os.path.isfile(init) else None), True
        return None, False

    def import_module(self, name):
        m = self.modules.get(name)
        if m is not None:
            return m
        if name in self.native_modules:
            m = self.native_modules[name]
            self.modules[name] = m
            return m
        path, is_pkg = self.find_module(name)
        if path is None and not is_pkg:
            raise Unsupported("import of module outside the verified roots: %s" % name)
        ns = {"__name__": name}
        m = ModuleV(name, ns)
        m.is_pkg = is_pkg
        self.modules[name] = m
        if path is not None:
            self.sources[name] = path
            with open(path) as f:
                src = f.read()
            tree = ast.parse(src, path)
            env = Env(ns, None, ns)
            ns["__module_name__"] = name
            self.exec_block(tree.body, env)
        return m

    def resolve_relative(self, modname, level, cur):
        if level == 0:
            return modname
        curm = self.modules.get(cur)
        parts = cur.split(".")
        if not getattr(curm, "is_pkg", False):
            parts = parts[:-1]
        if level > 1:
            parts = parts[: len(parts) - (level - 1)]
        return ".".join(parts + ([modname] if modname else []))

    # ------------------------------------------------------------------ exceptions
    def raise_builtin(self, clsname, *args):
        cls = self.builtins[clsname]
        raise PyRaise(self.instantiate(cls, list(args), {}))

    # ------------------------------------------------------------------ statements
    def exec_block(self, stmts, env):
        for s in stmts:
            r = self.exec_stmt(s, env)
            if r is not None:
                return r
        return None

    def exec_stmt(self, s, env):
        m = getattr(self, "st_" + type(s).__name__, None)
        if m is None:
            raise Unsupported("statement %s (line %s)" % (type(s).__name__, getattr(s, "lineno", "?")))
        return m(s, env)

    def st_Expr(self, s, env):
        if isinstance(s.value, ast.Constant):
            return None
        self.eval(s.value, env)
        return None

    def st_Pass(self, s, env):
        return None

    def st_Break(self, s, env):
        return (BRK,)

    def st_Continue(self, s, env):
        return (CONT,)

    def st_Return(self, s, env):
        return (RET, self.eval(s.value, env) if s.value is not None else None)

    def st_Global(self, s, env):
        if env.globals_decl is None:
            env.globals_decl = set()
        env.globals_decl.update(s.names)

    def st_Nonlocal(self, s, env):
        raise Unsupported("nonlocal")

    def st_Import(self, s, env):
        for a in s.names:
            m = self.import_module(a.name)
            if a.asname:
                self.store_name(a.asname, m, env)
            else:
                top = a.name.split(".")[0]
                self.store_name(top, self.import_module(top), env)
                # bind submodule path
                cur = self.import_module(top)
                parts = a.name.split(".")
                for i in range(1, len(parts)):
                    sub = self.import_module(".".join(parts[: i + 1]))
                    cur.ns[parts[i]] = sub
                    cur = sub
        return None

    def st_ImportFrom(self, s, env):
        if s.module == "__future__":
            return None
        cur = env.globals.get("__module_name__", "")
        name = self.resolve_relative(s.module or "", s.level, cur)
        m = self.import_module(name)
        for a in s.names:
            if a.name == "*":
                for k, v in m.ns.items():
                    if not k.startswith("_"):
                        self.store_name(k, v, env)
                continue
            if a.name in m.ns:
                v = m.ns[a.name]
            else:
                sub, is_pkg = self.find_module(name + "." + a.name)
                if sub is not None or is_pkg:
                    v = self.import_module(name + "." + a.name)
                elif isinstance(m, ModuleV) and getattr(m, "lenient", False):
                    v = TypingDummy(a.name)
                else:
                    raise Unsupported("cannot import name %s from %s" % (a.name, name))
            self.store_name(a.asname or a.name, v, env)
        return None

    def st_If(self, s, env):
        # if TYPE_CHECKING: dropped
        if isinstance(s.test, ast.Name) and s.test.id == "TYPE_CHECKING":
            return self.exec_block(s.orelse, env)
        c = self.eval(s.test, env)
        if self._if_conversion(s, c, env):
            return None
        if ops.truth(self, c, "if@%d" % s.lineno):
            return self.exec_block(s.body, env)
        return self.exec_block(s.orelse, env)

    def _if_conversion(self, s, c, env):
        """`if c: x = e1 [else: x = e2]` with side-effect free e1, e2 and a symbolic c is executed as
        x = ite(c, e1, e2) instead of forking the path (the statement form of what ex_IfExp does for the conditional
        expression; without it 32 such statements in a loop are 2**32 paths).  Anything else: fork as usual."""
        t = ops.truth_val(self, c)
        if isinstance(t, bool) or len(s.body) != 1 or len(s.orelse) > 1:
            return False
        b = s.body[0]
        o = s.orelse[0] if s.orelse else None
        if not (isinstance(b, ast.Assign) and len(b.targets) == 1 and isinstance(b.targets[0], ast.Name)):
            return False
        name = b.targets[0].id
        if o is not None and not (isinstance(o, ast.Assign) and len(o.targets) == 1 and isinstance(o.targets[0], ast.Name) and o.targets[0].id == name):
            return False
        if not self.is_pure(b.value, env) or (o is not None and not self.is_pure(o.value, env)):
            return False
        try:
            va = self.eval(b.value, env)
            vb = self.eval(o.value, env) if o is not None else self.load_name(name, env)
            m = ops.merge(t.t, va, vb)
        except (PyRaise, Unsupported):
            return False
        if m is NotImplemented:
            return False
        self.assign(b.targets[0], m, env)
        return True

    def st_Assert(self, s, env):
        c = self.eval(s.test, env)
        if not ops.truth(self, c, "assert@%d" % s.lineno):
            args = [self.eval(s.msg, env)] if s.msg is not None else []
            self.raise_builtin("AssertionError", *args)
        return None

    def st_Raise(self, s, env):
        if s.exc is None:
            e = self.current_exc
            if e is None:
                self.raise_builtin("RuntimeError", "No active exception to reraise")
            raise PyRaise(e)
        v = self.eval(s.exc, env)
        if isinstance(v, ClassV):
            v = self.instantiate(v, [], {})
        if not isinstance(v, Obj):
            raise Unsupported("raise of non-exception %r" % (v,))
        raise PyRaise(v)

    current_exc = None

    def st_Try(self, s, env):
        try:
            try:
                r = self.exec_block(s.body, env)
            except PyRaise as pr:
                exc = pr.exc
                for h in s.handlers:
                    if h.type is None:
                        match = True
                    else:
                        t = self.eval(h.type, env)
                        match = self.isinstance_(exc, t)
                    if match:
                        if h.name:
                            self.store_name(h.name, exc, env)
                        saved = self.current_exc
                        self.current_exc = exc
                        try:
                            return self.exec_block(h.body, env)
                        finally:
                            self.current_exc = saved
                raise
            else:
                if r is None and s.orelse:
                    r = self.exec_block(s.orelse, env)
                return r
        finally:
            if s.finalbody:
                fr = self.exec_block(s.finalbody, env)
                if fr is not None:
                    return fr

    def st_For(self, s, env):
        it = self.iterate(self.eval(s.iter, env))
        for x in it:
            self.assign(s.target, x, env)
            r = self.exec_block(s.body, env)
            if r is not None:
                if r[0] == BRK:
                    return None
                if r[0] == CONT:
                    continue
                return r
        return self.exec_block(s.orelse, env)

    def st_While(self, s, env):
        n = 0
        while True:
            c = self.eval(s.test, env)
            if not ops.truth(self, c, "while@%d" % s.lineno):
                break
            n += 1
            if n > self.while_bound:
                raise BoundExceeded("while loop at line %d exceeded %d iterations" % (s.lineno, self.while_bound))
            r = self.exec_block(s.body, env)
            if r is not None:
                if r[0] == BRK:
                    return None
                if r[0] == CONT:
                    continue
                return r
        return self.exec_block(s.orelse, env)

    def st_Match(self, s, env):
        subj = self.eval(s.subject, env)
        for case in s.cases:
            pat = case.pattern
            if isinstance(pat, ast.MatchValue):
                v = self.eval(pat.value, env)
                hit = ops.truth(self, ops.py_eq(self, subj, v), "case@%d" % pat.lineno)
            elif isinstance(pat, ast.MatchAs) and pat.pattern is None:
                hit = True
                if pat.name:
                    self.store_name(pat.name, subj, env)
            elif isinstance(pat, ast.MatchSingleton):
                hit = ops.identical(subj, pat.value)
            else:
                raise Unsupported("match pattern %s" % type(pat).__name__)
            if hit and case.guard is not None:
                hit = ops.truth(self, self.eval(case.guard, env))
            if hit:
                return self.exec_block(case.body, env)
        return None

    def st_Assign(self, s, env):
        v = self.eval(s.value, env)
        for t in s.targets:
            self.assign(t, v, env)
        return None

    def st_AnnAssign(self, s, env):
        if isinstance(s.target, ast.Name):
            order = env.vars.get("__ann_order__")
            if order is not None and s.target.id not in order:
                order.append(s.target.id)
        if s.value is not None:
            self.assign(s.target, self.eval(s.value, env), env)
        return None

    _AUG = {ast.Add: "add", ast.Sub: "sub", ast.Mult: "mul", ast.FloorDiv: "floordiv", ast.Mod: "mod",
            ast.LShift: "lshift", ast.RShift: "rshift", ast.BitAnd: "and", ast.BitOr: "or", ast.BitXor: "xor",
            ast.Pow: "pow", ast.Div: "truediv"}

    def st_AugAssign(self, s, env):
        t = s.target
        op = self._AUG[type(s.op)]
        if isinstance(t, ast.Name):
            cur = self.load_name(t.id, env)
            self.store_name(t.id, self.binop(op, cur, self.eval(s.value, env), inplace=True), env)
        elif isinstance(t, ast.Attribute):
            o = self.eval(t.value, env)
            cur = self.get_attr(o, t.attr)
            self.set_attr(o, t.attr, self.binop(op, cur, self.eval(s.value, env), inplace=True))
        elif isinstance(t, ast.Subscript):
            o = self.eval(t.value, env)
            k = self.eval_index(t.slice, env)
            cur = self.subscript(o, k)
            self.store_subscript(o, k, self.binop(op, cur, self.eval(s.value, env), inplace=True))
        else:
            raise Unsupported("augmented assignment target")
        return None

    def st_Delete(self, s, env):
        for t in s.targets:
            if isinstance(t, ast.Name):
                env.vars.pop(t.id, None)
            elif isinstance(t, ast.Subscript):
                o = self.eval(t.value, env)
                k = self.eval_index(t.slice, env)
                self.del_subscript(o, k)
            else:
                raise Unsupported("del target")
        return None

    def st_FunctionDef(self, s, env):
        f = self.make_function(s, env)
        for d in reversed(s.decorator_list):
            f = self.apply_decorator(self.eval(d, env), f)
        self.store_name(s.name, f, env)
        return None

    def make_function(self, node, env):
        a = node.args
        defaults = [self.eval(d, env) for d in a.defaults]
        kwdefaults = {k.arg: self.eval(d, env) for k, d in zip(a.kwonlyargs, a.kw_defaults) if d is not None}
        closure = env if env.func is not None or env.is_comp or env.parent is not None else None
        name = getattr(node, "name", "<lambda>")
        f = FuncV(name, node, closure, env.globals, defaults, kwdefaults, env.globals.get("__module_name__", ""))
        return f

    def apply_decorator(self, d, f):
        if isinstance(d, Builtin):
            return d.fn(self, [f], {})
        if isinstance(d, TypingDummy):
            return f
        return self.call(d, [f], {})

    def st_ClassDef(self, s, env):
        bases = []
        for b in s.bases:
            v = self.eval(b, env)
            if isinstance(v, TypingDummy):
                continue
            bases.append(v)
        ns = {"__ann_order__": [], "__qualname__": s.name}
        # a class defined inside a function: its methods may refer to the enclosing function's variables
        nested = env.func is not None or env.parent is not None
        cenv = Env(ns, env if nested else None, env.globals)
        cenv.func = None
        self.exec_block(s.body, cenv)
        cls = self.make_class(s.name, bases, ns, env.globals.get("__module_name__", ""))
        for d in reversed(s.decorator_list):
            cls = self.apply_decorator(self.eval(d, env), cls)
        self.store_name(s.name, cls, env)
        return None

    def make_class(self, name, bases, ns, module):
        real_bases = []
        native_base = None
        is_enum = False
        for b in bases:
            if b is list:
                native_base = "list"
                continue
            if isinstance(b, ClassV):
                real_bases.append(b)
                if b.native_base:
                    native_base = b.native_base
                if b.is_enum:
                    is_enum = True
            else:
                raise Unsupported("base class %r" % (b,))
        if not real_bases:
            real_bases = [self.builtins["object"]]
        cls = ClassV(name, real_bases, ns, module)
        cls.native_base = native_base
        cls.mro = self.c3(cls)
        cls.ann_order = ns.pop("__ann_order__", [])
        for k, v in ns.items():
            f = v.f if isinstance(v, (StaticM, ClassM)) else (v.fget if isinstance(v, PropertyV) else v)
            if isinstance(f, FuncV) and f.owner is None:
                f.owner = cls
        if is_enum and not ns.get("__is_enum_base__"):
            cls.is_enum = True
            members = []
            for k, v in list(ns.items()):
                if k.startswith("_") or isinstance(v, (FuncV, StaticM, ClassM, PropertyV)):
                    continue
                mobj = Obj(cls)
                mobj.fields["name"] = k
                mobj.fields["_name_"] = k
                mobj.fields["value"] = v
                ns[k] = mobj
                members.append(mobj)
            cls.enum_members = members
        elif ns.get("__is_enum_base__"):
            cls.is_enum = True
        # inherit dataclass-ness lazily (the decorator sets fields)
        return cls

    def c3(self, cls):
        seqs = [list(b.mro) for b in cls.bases] + [list(cls.bases)]
        res = [cls]
        while True:
            seqs = [s for s in seqs if s]
            if not seqs:
                return res
            for s in seqs:
                cand = s[0]
                if not any(cand in t[1:] for t in seqs):
                    break
            else:
                raise Unsupported("inconsistent MRO for %s" % cls.name)
            res.append(cand)
            for s in seqs:
                if s[0] is cand:
                    del s[0]

    # ------------------------------------------------------------------ names and assignment
    def load_name(self, name, env):
        e = env
        while e is not None:
            if name in e.vars:
                return e.vars[name]
            e = e.parent
        g = env.globals
        if name in g:
            return g[name]
        if name in self.builtins:
            return self.builtins[name]
        self.raise_builtin("NameError", "name '%s' is not defined" % name)

    def store_name(self, name, v, env):
        if env.globals_decl and name in env.globals_decl:
            env.globals[name] = v
            return
        env.vars[name] = v

    def assign(self, target, v, env):
        if isinstance(target, ast.Name):
            self.store_name(target.id, v, env)
        elif isinstance(target, ast.Attribute):
            self.set_attr(self.eval(target.value, env), target.attr, v)
        elif isinstance(target, ast.Subscript):
            o = self.eval(target.value, env)
            k = self.eval_index(target.slice, env)
            self.store_subscript(o, k, v)
        elif isinstance(target, (ast.Tuple, ast.List)):
            items = self.iterate(v)
            if any(isinstance(e, ast.Starred) for e in target.elts):
                raise Unsupported("starred assignment")
            if len(items) != len(target.elts):
                self.raise_builtin("ValueError", "wrong number of values to unpack")
            for t, x in zip(target.elts, items):
                self.assign(t, x, env)
        else:
            raise Unsupported("assignment target %s" % type(target).__name__)

    # ------------------------------------------------------------------ calls
    def call(self, f, args, kwargs):
        if isinstance(f, FuncV):
            return self.call_function(f, args, kwargs)
        if isinstance(f, BoundMethod):
            return self.call(f.func, [f.self_] + list(args), kwargs)
        if isinstance(f, Builtin):
            return f.fn(self, list(args), kwargs)
        if isinstance(f, ClassV):
            return self.instantiate(f, list(args), kwargs)
        if isinstance(f, FixedType):
            if kwargs or len(args) > 1:
                raise Unsupported("fixedint constructor with base")
            return self.fixed_new(f, args[0] if args else 0)
        if isinstance(f, type):
            return self.call_native_type(f, list(args), kwargs)
        if isinstance(f, TypingDummy):
            return TypingDummy(f.name)
        if isinstance(f, StaticM):
            return self.call(f.f, args, kwargs)
        if isinstance(f, Obj):
            m, _ = f.cls.lookup("__call__")
            if m is not None:
                return self.call(m, [f] + list(args), kwargs)
        raise Unsupported("call of %r" % (f,))

    def call_function(self, f: FuncV, args, kwargs):
        node = f.node
        a = node.args
        if f.owner is not None and self.stubs:
            stub = self.stubs.get((f.owner.qualname, f.name))
            if stub is not None:
                return self.call(stub, args, kwargs)
        local = {}
        params = [p.arg for p in a.posonlyargs] + [p.arg for p in a.args]
        npos = len(params)
        if len(args) > npos:
            if a.vararg is None:
                self.raise_builtin("TypeError", "%s() takes %d positional arguments but %d were given" % (f.name, npos, len(args)))
            local[a.vararg.arg] = tuple(args[npos:])
            pos = args[:npos]
        else:
            pos = args
            if a.vararg is not None:
                local[a.vararg.arg] = ()
        for n, v in zip(params, pos):
            local[n] = v
        extra = None
        if kwargs:
            kwonly = {p.arg for p in a.kwonlyargs}
            for k, v in kwargs.items():
                if k in local:
                    self.raise_builtin("TypeError", "%s() got multiple values for argument '%s'" % (f.name, k))
                if k in params or k in kwonly:
                    local[k] = v
                else:
                    if a.kwarg is None:
                        self.raise_builtin("TypeError", "%s() got an unexpected keyword argument '%s'" % (f.name, k))
                    if extra is None:
                        extra = {}
                    extra[k] = v
        if a.kwarg is not None:
            d = DictV()
            for k, v in (extra or {}).items():
                self.dict_set(d, k, v)
            local[a.kwarg.arg] = d
        nd = len(f.defaults)
        for i, n in enumerate(params):
            if n not in local:
                j = i - (npos - nd)
                if j < 0:
                    self.raise_builtin("TypeError", "%s() missing required positional argument: '%s'" % (f.name, n))
                local[n] = f.defaults[j]
        for p in a.kwonlyargs:
            if p.arg not in local:
                if p.arg in f.kwdefaults:
                    local[p.arg] = f.kwdefaults[p.arg]
                else:
                    self.raise_builtin("TypeError", "%s() missing keyword-only argument '%s'" % (f.name, p.arg))
        env = Env(local, f.env, f.module_ns, func=f)
        if params and args:
            env.self_obj = args[0] if pos else None
        elif params and params[0] in local:
            env.self_obj = local[params[0]]
        if self.trace_calls is not None:
            self.trace_calls.add((f.module_name, f.owner.name if f.owner else None, f.name))
        self.depth += 1
        if self.depth > 200:
            raise Unsupported("recursion depth exceeded")
        try:
            if isinstance(node, ast.Lambda):
                return self.eval(node.body, env)
            r = self.exec_block(node.body, env)
        finally:
            self.depth -= 1
        if r is None:
            return None
        if r[0] == RET:
            return r[1]
        raise Unsupported("break/continue outside loop")

    def instantiate(self, cls: ClassV, args, kwargs):
        if cls.is_enum:
            # Enum lookup by value
            for m in cls.enum_members:
                if ops.py_eq(self, m.fields["value"], args[0]) is True:
                    return m
            self.raise_builtin("ValueError", "not a valid enum value")
        o = Obj(cls)
        if cls.native_base == "list":
            o.items = []
        init, owner = cls.lookup("__init__")
        if init is not None:
            self.call(init, [o] + args, kwargs)
        elif cls.native_base == "list":
            if args and isinstance(args[0], LogList):
                o.items = args[0].clone()
            else:
                o.items = self.iterate(args[0]) if args else []
        elif args or kwargs:
            self.raise_builtin("TypeError", "%s() takes no arguments" % cls.name)
        post, _ = cls.lookup("__post_init__")
        if post is not None and cls.is_dataclass:
            self.call(post, [o], {})
        return o
