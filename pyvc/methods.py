"""Methods of native values (list, str, dict, fixedint, int) with symbolic-aware implementations."""
from __future__ import annotations
from . import ir
from .values import *
from . import ops


class MethodMixin:
    def native_method(self, o, name, owner):
        if isinstance(o, list):
            f = getattr(self, "lm_" + name, None)
            if f is not None:
                return Builtin("list." + name, lambda it, a, k: f(o, a, k))
            if name in ("__getitem__",):
                return Builtin("list.__getitem__", lambda it, a, k: self.subscript(o, a[0]))
            if name in ("__setitem__",):
                return Builtin("list.__setitem__", lambda it, a, k: self.store_subscript(o, a[0], a[1]))
            if name == "__len__":
                return Builtin("list.__len__", lambda it, a, k: len(o))
            if name == "__init__":
                def li(it, a, k):
                    o[:] = self.iterate(a[0]) if a else []
                return Builtin("list.__init__", li)
        if isinstance(o, DictV):
            f = getattr(self, "dm_" + name, None)
            if f is not None:
                return Builtin("dict." + name, lambda it, a, k: f(o, a, k))
        if isinstance(o, (str, SymStr)):
            if name == "format":
                return Builtin("str.format", lambda it, a, k: self.str_format([o] + a, k))
            if name == "join":
                return Builtin("str.join", lambda it, a, k: self.sm_join(o, a))
            if name in ("upper", "lower") and isinstance(o, SymStr):
                ch = o.chars()
                if ch is not None and all(isinstance(c, str) or c[0] in ("bit", "hexd") for c in ch) and name == "upper":
                    return Builtin("str.upper", lambda it, a, k: mkstr([c.upper() if isinstance(c, str) else c for c in ch]))
                raise Unsupported("case conversion of symbolic string")
            if isinstance(o, str) and hasattr(o, name):
                def sm(it, a, k, name=name):
                    if any(ops.is_sym(x) or isinstance(x, SymStr) for x in a):
                        raise Unsupported("str.%s with symbolic argument" % name)
                    r = getattr(o, name)(*a, **k)
                    return r
                return Builtin("str." + name, sm)
        if isinstance(o, tuple):
            if name in ("index", "count"):
                return self.native_method(list(o), name, owner)
        if isinstance(o, (set, frozenset)):
            if name == "add":
                return Builtin("set.add", lambda it, a, k: o.add(a[0]))
            if name in ("union", "intersection", "difference", "issubset", "copy", "discard", "remove", "update"):
                return Builtin("set." + name, lambda it, a, k: getattr(o, name)(*a))
        if isinstance(o, (int, SInt, FixedV)) and not isinstance(o, bool):
            if name == "to_bytes":
                def tb(it, a, k):
                    n = a[0] if a else k.get("length", 1)
                    order = a[1] if len(a) > 1 else k.get("byteorder", "big")
                    x = ops.int_of(o)
                    if isinstance(x, int):
                        try:
                            return ("bytes4be", ir.const(x)) if (n == 4 and order == "big" and 0 <= x < 2 ** 32) else x.to_bytes(n, order)
                        except OverflowError:
                            self.raise_builtin("OverflowError", "int too big to convert")
                    if n == 4 and order == "big":
                        if not self.path.decide(ir.band_(ir.le(0, x.t), ir.lt(x.t, 2 ** 32)), "to_bytes-range"):
                            self.raise_builtin("OverflowError", "int too big to convert")
                        return ("bytes4be", x.t)
                    raise Unsupported("to_bytes symbolic")
                return Builtin("int.to_bytes", tb)
            if name == "bit_length" and isinstance(o, int):
                return Builtin("int.bit_length", lambda it, a, k: o.bit_length())
            if name == "__index__" or name == "__int__":
                return Builtin("int.__int__", lambda it, a, k: ops.int_of(o))
        if isinstance(o, Obj):
            if name == "__repr__":
                return Builtin("object.__repr__", lambda it, a, k: self.repr_default(o))
            if name == "__str__":
                return Builtin("object.__str__", lambda it, a, k: self.str_(o))
            if name == "__eq__":
                return Builtin("object.__eq__", lambda it, a, k: o is a[0])
            if name == "__init__":
                return Builtin("object.__init__", lambda it, a, k: None)
        self.raise_builtin("AttributeError", "'%s' object has no attribute '%s'" % (self.type_name(o), name))

    def repr_default(self, o):
        """repr of an object whose class defines no __repr__ (exceptions, dataclasses, plain objects)."""
        return self.repr_(o)

    # ------------------------------------------------------------------ list methods
    def lm_append(self, o, a, k):
        o.append(a[0])

    def lm_extend(self, o, a, k):
        o.extend(self.iterate(a[0]))

    def lm_insert(self, o, a, k):
        o.insert(ops.concretize(self, a[0], "insert position"), a[1])

    def lm_pop(self, o, a, k):
        if not o:
            self.raise_builtin("IndexError", "pop from empty list")
        i = ops.concretize(self, a[0], "pop position") if a else -1
        try:
            return o.pop(i)
        except IndexError:
            self.raise_builtin("IndexError", "pop index out of range")

    def lm_clear(self, o, a, k):
        o.clear()

    def lm_copy(self, o, a, k):
        return list(o)

    def lm_reverse(self, o, a, k):
        o.reverse()

    def lm_sort(self, o, a, k):
        o[:] = self.b_sorted([o], k)

    def lm_count(self, o, a, k):
        acc = 0
        for x in o:
            e = ops.py_eq(self, x, a[0])
            acc = self.binop("add", acc, e if isinstance(e, bool) else ops.from_term(ir.ite(e.t, 1, 0)))
        return acc

    def _eq_terms(self, o, x):
        out = []
        for y in o:
            e = ops.py_eq(self, y, x)
            out.append(ir.lift(e) if isinstance(e, bool) else e.t)
        return out

    def lm_index(self, o, a, k):
        x = a[0]
        cs = self._eq_terms(o, x)
        if all(c.op == "bconst" for c in cs):
            for i, c in enumerate(cs):
                if ir.cval(c):
                    return i
            self.raise_builtin("ValueError", "value is not in list")
        if not self.path.decide(ir.disj(cs), "list.index-found"):
            self.raise_builtin("ValueError", "value is not in list")
        acc = ir.const(len(o) - 1)
        for i in range(len(o) - 2, -1, -1):
            acc = ir.ite(cs[i], i, acc)
        return ops.from_term(acc)

    def lm_remove(self, o, a, k):
        x = a[0]
        cs = self._eq_terms(o, x)
        if all(c.op == "bconst" for c in cs):
            for i, c in enumerate(cs):
                if ir.cval(c):
                    del o[i]
                    return None
            self.raise_builtin("ValueError", "list.remove(x): x not in list")
        if not self.path.decide(ir.disj(cs), "list.remove-found"):
            self.raise_builtin("ValueError", "list.remove(x): x not in list")
        # element j of the result is o[j] while nothing at or before j matched, else o[j+1]
        found = ir.FALSE
        new = []
        mergeable = True
        for j in range(len(o) - 1):
            found = ir.bor_(found, cs[j])
            m = ops.merge(found, o[j + 1], o[j])
            if m is NotImplemented:
                mergeable = False
                break
            new.append(m)
        if mergeable:
            o[:] = new
            return None
        # fork on the position of the first match
        conds = []
        prev = ir.TRUE
        for j in range(len(o)):
            conds.append(ir.band_(prev, cs[j]))
            prev = ir.band_(prev, ir.bnot_(cs[j]))
        j = self.path.choose(conds, "list.remove-position")
        del o[j]
        return None

    # ------------------------------------------------------------------ dict methods
    def dm_get(self, d, a, k):
        default = a[1] if len(a) > 1 else None
        pres, val = self.dict_lookup(d, a[0])
        if pres.op == "bconst":
            return val if ir.cval(pres) else default
        m = ops.merge(pres, val, default) if val is not None else NotImplemented
        if m is not NotImplemented:
            return m
        return val if self.path.decide(pres, "dict.get") else default

    def dm_keys(self, d, a, k):
        return [kk for kk, _ in self.dict_items(d)]

    def dm_values(self, d, a, k):
        return [vv for _, vv in self.dict_items(d)]

    def dm_items(self, d, a, k):
        return [(kk, vv) for kk, vv in self.dict_items(d)]

    def dm_update(self, d, a, k):
        if a:
            for kk, vv in self.dict_items(a[0]):
                self.dict_set(d, kk, vv)
        for kk, vv in k.items():
            self.dict_set(d, kk, vv)

    def dm_copy(self, d, a, k):
        n = DictV(d.base)
        n.entries = [list(e) for e in d.entries]
        n.index = dict(d.index)
        n.sym = d.sym
        return n

    def dm_pop(self, d, a, k):
        if d.sym or d.base is not None or ops.is_sym(a[0]):
            raise Unsupported("pop on symbolic dict")
        if a[0] in d.index:
            v = d.entries[d.index[a[0]]][1]
            self.del_subscript(d, a[0])
            return v
        if len(a) > 1:
            return a[1]
        raise PyRaise(self.instantiate(self.builtins["KeyError"], [a[0]], {}))

    def dm_setdefault(self, d, a, k):
        pres, val = self.dict_lookup(d, a[0])
        if self.path.decide(pres, "dict.setdefault"):
            return val
        self.dict_set(d, a[0], a[1] if len(a) > 1 else None)
        return a[1] if len(a) > 1 else None

    def dm_clear(self, d, a, k):
        d.entries = []
        d.index = {}
        d.base = None
        d.sym = False

    def dm___getitem__(self, d, a, k):
        return self.dict_get(d, a[0])

    def dm___setitem__(self, d, a, k):
        return self.dict_set(d, a[0], a[1])

    def dm___contains__(self, d, a, k):
        return self.dict_contains(d, a[0])

    # ------------------------------------------------------------------ str methods
    def sm_join(self, sep, a):
        items = self.iterate(a[0])
        parts = []
        for i, x in enumerate(items):
            if i:
                parts.extend(SymStr.of(sep).parts)
            if not isinstance(x, (str, SymStr)):
                self.raise_builtin("TypeError", "sequence item %d: expected str instance" % i)
            parts.extend(SymStr.of(x).parts)
        return mkstr(parts)
