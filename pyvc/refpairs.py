"""Targeted regression against the kept refactorings: python -m pyvc.refpairs R5:C13 R5:C19 R3:C01 ...
Each pair applies refactors/<id>/patch.diff to a scratch worktree of /repo and runs that one check (quick tier) with
VERIF_REPO; exit 0 iff no check raised an alarm (VIOLATION / CHECKER-CRASH / non-zero exit)."""
import os
import subprocess
import sys
import tempfile

V = os.path.dirname(os.path.dirname(os.path.abspath(__file__)))


def main():
    alarms = []
    by_rid = {}
    for a in sys.argv[1:]:
        rid, p = a.split(":")
        by_rid.setdefault(rid, []).append(p)
    for rid, props in by_rid.items():
        wt = tempfile.mkdtemp(prefix="refp_", dir="/tmp")
        os.rmdir(wt)
        try:
            subprocess.run(["git", "-C", "/repo", "worktree", "add", "-q", "--detach", wt], check=True)
            subprocess.run(["git", "-C", wt, "apply", os.path.join(V, "refactors", rid, "patch.diff")], check=True)
            for p in props:
                env = dict(os.environ, VERIF_REPO=wt, VERIF_NO_EVIDENCE="1")
                r = subprocess.run([os.path.join(V, "check"), p, "--tier", "quick"], cwd=V, env=env, capture_output=True, text=True)
                bad = [l for l in r.stdout.splitlines() if l.startswith(("VIOLATION", "CHECKER-CRASH"))]
                und = len([l for l in r.stdout.splitlines() if l.startswith("UNDECIDED")])
                print("%-3s %-4s rc=%d alarms=%d undecided-lines=%d  %s" % (rid, p, r.returncode, len(bad), und, r.stdout.strip().splitlines()[-1][:150]), flush=True)
                for l in bad[:3]:
                    print("     " + l[:220], flush=True)
                if r.returncode != 0 or bad:
                    alarms.append((rid, p))
        finally:
            subprocess.run(["git", "-C", "/repo", "worktree", "remove", "--force", wt])
    print("pairs=%d alarms=%d %s" % (len(sys.argv) - 1, len(alarms), alarms))
    return 1 if alarms else 0


if __name__ == "__main__":
    sys.exit(main())
