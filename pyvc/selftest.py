"""Mutation self-test of the checker (A-ENGINE attack iii): each deliberately broken body, applied to a
scratch copy of /repo's package under $TMPDIR (removed afterwards), must make the named property's
check report a VIOLATION.  Usage: python -m pyvc.selftest [regex]"""
import os, re, shutil, subprocess, sys, tempfile

VERIF = os.path.dirname(os.path.dirname(os.path.abspath(__file__)))
PKG = "architecture_simulator"
M = [
    # (id, property, file, old, new)
    ("mem-big-endian", "C18", "uarch/memory/memory.py", "<< (i * self.memory_file_values_width)", "<< ((n - 1 - i) * self.memory_file_values_width)"),
    ("mem-range-after-store", "C18", "uarch/memory/memory.py", "        self.assert_address_in_range(address)\n        self.memory_file[address] = value", "        self.memory_file[address] = value\n        self.assert_address_in_range(address)"),
    ("mem-no-wrap-on-write", "C18", "uarch/memory/memory.py", "        if self.address_overflow:\n            address = address % (2**self.address_length)\n        self.assert_address_in_range(address)\n        self.memory_file[address] = value", "        self.assert_address_in_range(address)\n        self.memory_file[address] = value"),
    ("toy-brz-inverted", "C06", "isa/toy/toy_instructions.py", "        if not state.accu:\n            state.set_current_pc", "        if state.accu:\n            state.set_current_pc"),
    ("toy-halt-lt", "C06", "simulation/toy_simulation.py", "if self.state.program_counter <= self.state.max_pc:", "if self.state.program_counter < self.state.max_pc:"),
    ("toy-dec-is-inc", "C06", "isa/toy/toy_instructions.py", "        state.accu -= UInt16(1)", "        state.accu += UInt16(1)"),
    ("toy-sub-swapped", "C06", "isa/toy/toy_instructions.py", "        state.accu = state.accu - read_value", "        state.accu = read_value - state.accu"),
    ("toy-cycles-once", "C06", "simulation/toy_simulation.py", "        self.state.performance_metrics.instruction_count += 1\n        self.state.performance_metrics.cycles += 1", "        self.state.performance_metrics.instruction_count += 1"),
    ("toy-decode-13-as-zro", "C19", "isa/toy/toy_instructions.py", "        elif opcode == 11:\n            return ZRO(address)", "        elif opcode == 11 or opcode == 13:\n            return ZRO(address)"),
    ("toy-address-mask", "C19", "isa/toy/toy_instructions.py", "        address = integer_instruction & 0xFFF", "        address = integer_instruction & 0x7FF"),
    ("toy-step-skips-error", "C20", "simulation/toy_simulation.py", "        if not self.next_cycle == 2:\n            raise StepSequenceError(", "        if False:\n            raise StepSequenceError("),
    ("toy-single-step-order", "C20", "simulation/toy_simulation.py", "        if self.next_cycle == 1:\n            self.first_cycle_step()\n        else:\n            self.second_cycle_step()", "        if self.next_cycle == 1:\n            self.first_cycle_step()\n            self.state.performance_metrics.cycles += 0\n            self.has_started = False\n        else:\n            self.second_cycle_step()"),
    ("repr-sign-threshold", "C17", "util/integer_representations.py", "if unsigned_number >= 2 ** (n - 1) else", "if unsigned_number > 2 ** (n - 1) else"),
    ("repr-group-left", "C17", "util/integer_representations.py", "    reversed_string = string[::-1]", "    reversed_string = string"),
    ("lru-move-to-front", "C10", "uarch/memory/replacement_strategies.py", "        self.lru.remove(index)\n        self.lru.append(index)", "        self.lru.remove(index)\n        self.lru.insert(0, index)"),
    ("lru-victim-last", "C10", "uarch/memory/replacement_strategies.py", "        return self.lru[0]", "        return self.lru[-1]"),
    ("plru-inverted-bit", "C10", "uarch/memory/replacement_strategies.py", "            is_right_child = i % 2 == 1", "            is_right_child = i % 2 == 0"),
    ("plru-toggle", "C10", "uarch/memory/replacement_strategies.py", "            self.tree_array[i] = is_right_child", "            self.tree_array[i] = not self.tree_array[i]"),
]
try:
    from pyvc.selftest_more import MORE
    M = M + MORE
except ImportError:
    pass


def main():
    pat = sys.argv[1] if len(sys.argv) > 1 else "."
    repo = os.environ.get("VERIF_REPO", "/repo")
    failed = []
    n = 0
    for mid, prop, rel, old, new in M:
        if not re.search(pat, mid) and not re.search(pat, prop):
            continue
        n += 1
        d = tempfile.mkdtemp(prefix="pyvc-mut-")
        try:
            shutil.copytree(os.path.join(repo, PKG), os.path.join(d, PKG))
            p = os.path.join(d, PKG, rel)
            s = open(p).read()
            if old not in s:
                print("MUTATION-STALE %s: pattern not found in %s" % (mid, rel))
                failed.append(mid)
                continue
            open(p, "w").write(s.replace(old, new, 1))
            env = dict(os.environ, VERIF_REPO=d, VERIF_NO_EVIDENCE="1")
            r = subprocess.run([os.path.join(VERIF, "check"), prop], capture_output=True, text=True, env=env, timeout=1800)
            caught = r.returncode == 1 and "VIOLATION property=%s" % prop in r.stdout
            print("%-28s %-4s %s" % (mid, prop, "caught" if caught else "MISSED rc=%d %s" % (r.returncode, r.stdout.strip().splitlines()[-1:] )))
            if not caught:
                failed.append(mid)
        finally:
            shutil.rmtree(d, ignore_errors=True)
    print("selftest: %d mutations, %d missed" % (n, len(failed)))
    return 1 if failed else 0


if __name__ == "__main__":
    sys.exit(main())
