"""VC generation for straight-line list code over lists of SYMBOLIC length (C10: LRU for every associativity).

A list value is (z3 array Int->Int, z3 Int length).  The handful of list operations the LRU class uses are given
their Python semantics as z3 formulas (A-BUILTIN, listed in `SEMANTICS`); the methods of the real class are read from
the tree under check and executed statement by statement (`Exec`).  Any construct outside the subset raises
Unsupported: the unit is then UNDECIDED.

Existential facts a solver cannot find for an arbitrary length (that an element occurs in a permutation) are supplied
by the contract as a *witness function* (ghost inverse permutation) and checked as obligations, never assumed.
"""
import ast

import z3


class Unsupported(Exception):
    pass


SEMANTICS = {
    "[f(i) for i in range(n)]": "length n (n >= 0), element p is f(p)",
    "lst.remove(x)": "raises ValueError unless x occurs; with k the first position holding x: length - 1, elements before k kept, elements behind k shifted down by one",
    "lst.append(x)": "length + 1, element at the old length is x, all others kept",
    "lst.insert(c, x) (constant c >= 0, or len(lst))": "length + 1, x at position min(c, length), elements from there on shifted up by one",
    "list(range(n))": "length n (n >= 0), element p is p",
    "lst[c] (constant c >= 0)": "raises IndexError unless c < length; element c",
    "lst.index(x)": "raises ValueError unless x occurs; the first position holding x",
    "len(lst)": "the length",
}


class SymList:
    def __init__(self, arr, n):
        self.arr = arr
        self.n = n

    def at(self, p):
        return z3.Select(self.arr, p)


class Obj:
    def __init__(self):
        self.fields = {}


class Raised(Exception):
    def __init__(self, name):
        self.name = name


class Exec:
    """executes methods of one class (single inheritance) on a symbolic object"""

    def __init__(self, tree, class_name, witness=None):
        self.classes = {n.name: n for n in ast.walk(tree) if isinstance(n, ast.ClassDef)}
        self.cls = class_name
        self.assumptions = []       # defining facts of fresh constants (first-occurrence positions)
        self.obligations = []       # (name, formula): side conditions that must hold (no exception)
        self.witness = witness      # callable(list, x) -> position term where x occurs
        self.fresh = 0
        self.functions = set()

    def _new(self, base):
        self.fresh += 1
        return z3.Int("%s!%d" % (base, self.fresh))

    def method(self, cls, name):
        c = self.classes[cls]
        for st in c.body:
            if isinstance(st, ast.FunctionDef) and st.name == name:
                return cls, st
        for b in c.bases:
            if isinstance(b, ast.Name) and b.id in self.classes:
                return self.method(b.id, name)
        raise Unsupported("method %s.%s not found" % (cls, name))

    def call(self, obj, name, args, cls=None):
        owner, fn = self.method(cls or self.cls, name)
        self.functions.add("%s.%s" % (owner, name))
        params = [a.arg for a in fn.args.args]
        if len(params) != len(args) + 1 or fn.args.vararg or fn.args.kwarg or fn.args.kwonlyargs:
            raise Unsupported("signature of %s" % name)
        env = dict(zip(params[1:], args))
        env[params[0]] = obj
        env["__class__"] = owner
        for st in fn.body:
            if isinstance(st, ast.Expr) and isinstance(st.value, ast.Constant):
                continue          # docstring
            r = self.stmt(st, env)
            if r is not None:
                return r[0]
        return None

    def stmt(self, st, env):
        if isinstance(st, ast.Pass):
            return None
        if isinstance(st, ast.Return):
            return (self.expr(st.value, env) if st.value is not None else None,)
        if isinstance(st, ast.Assign) and len(st.targets) == 1 and isinstance(st.targets[0], ast.Attribute) and isinstance(st.targets[0].value, ast.Name) \
                and isinstance(env.get(st.targets[0].value.id), Obj):
            env[st.targets[0].value.id].fields[st.targets[0].attr] = self.expr(st.value, env)
            return None
        if isinstance(st, ast.Expr) and isinstance(st.value, ast.Call):
            self.expr(st.value, env)
            return None
        raise Unsupported("statement %s" % ast.unparse(st)[:60])

    def _occurs(self, lst, x, what):
        """obligation that x occurs in lst (through the contract's witness); returns the first position (fresh constant)"""
        if self.witness is None:
            raise Unsupported("%s needs a witness for membership" % what)
        w = self.witness(lst, x)
        self.obligations.append((what + ":element_occurs", z3.And(0 <= w, w < lst.n, lst.at(w) == x)))
        k = self._new("k")
        j = z3.Int("j")
        self.assumptions.append(z3.And(0 <= k, k <= w, lst.at(k) == x, z3.ForAll([j], z3.Implies(z3.And(0 <= j, j < k), lst.at(j) != x))))
        return k

    def expr(self, e, env):
        if isinstance(e, ast.Name):
            if e.id in env:
                return env[e.id]
            raise Unsupported("name " + e.id)
        if isinstance(e, ast.Constant) and isinstance(e.value, int) and not isinstance(e.value, bool):
            return z3.IntVal(e.value)
        if isinstance(e, ast.BinOp) and isinstance(e.op, (ast.Add, ast.Sub, ast.Mult)):
            a, b = self.expr(e.left, env), self.expr(e.right, env)
            if not (z3.is_int(a) and z3.is_int(b)):
                raise Unsupported("arithmetic on non-integers")
            return a + b if isinstance(e.op, ast.Add) else (a - b if isinstance(e.op, ast.Sub) else a * b)
        if isinstance(e, ast.Attribute) and isinstance(e.value, ast.Name) and isinstance(env.get(e.value.id), Obj):
            o = env[e.value.id]
            if e.attr not in o.fields:
                raise Unsupported("attribute %s read before it is set" % e.attr)
            return o.fields[e.attr]
        if isinstance(e, ast.Subscript) and isinstance(e.slice, ast.Constant) and isinstance(e.slice.value, int) and e.slice.value >= 0:
            lst = self.expr(e.value, env)
            if not isinstance(lst, SymList):
                raise Unsupported("subscript of a non-list")
            self.obligations.append(("subscript:index_in_range", lst.n > e.slice.value))
            return lst.at(z3.IntVal(e.slice.value))
        if isinstance(e, ast.ListComp) and len(e.generators) == 1 and not e.generators[0].ifs and isinstance(e.generators[0].target, ast.Name) \
                and isinstance(e.generators[0].iter, ast.Call) and isinstance(e.generators[0].iter.func, ast.Name) and e.generators[0].iter.func.id == "range" \
                and len(e.generators[0].iter.args) == 1:
            n = self.expr(e.generators[0].iter.args[0], env)
            v = z3.Int("i!%d" % (self.fresh + 1))
            self.fresh += 1
            inner = dict(env)
            inner[e.generators[0].target.id] = v
            inner["__bound__"] = (v, n)
            elt = self.expr(e.elt, inner)
            self.obligations.append(("listcomp:length_not_negative", n >= 0))
            return SymList(z3.Lambda([v], elt), n)
        if isinstance(e, ast.Call):
            f = e.func
            if isinstance(f, ast.Name) and f.id == "len" and len(e.args) == 1:
                lst = self.expr(e.args[0], env)
                if not isinstance(lst, SymList):
                    raise Unsupported("len of a non-list")
                return lst.n
            if isinstance(f, ast.Attribute) and isinstance(f.value, ast.Call) and isinstance(f.value.func, ast.Name) and f.value.func.id == "super" and not f.value.args:
                owner = env["__class__"]
                bases = [b.id for b in self.classes[owner].bases if isinstance(b, ast.Name) and b.id in self.classes]
                if len(bases) != 1:
                    raise Unsupported("super() with %d known bases" % len(bases))
                slf = next(v for v in env.values() if isinstance(v, Obj))
                return self.call(slf, f.attr, [self.expr(a, env) for a in e.args], cls=bases[0])
            if isinstance(f, ast.Name) and f.id == "list" and len(e.args) == 1 and isinstance(e.args[0], ast.Call) and isinstance(e.args[0].func, ast.Name) \
                    and e.args[0].func.id == "range" and len(e.args[0].args) == 1:
                n = self.expr(e.args[0].args[0], env)
                v = z3.Int("i!%d" % (self.fresh + 1))
                self.fresh += 1
                self.obligations.append(("list(range):length_not_negative", n >= 0))
                return SymList(z3.Lambda([v], v), n)
            if isinstance(f, ast.Attribute) and isinstance(f.value, ast.Name) and isinstance(env.get(f.value.id), Obj) and not e.keywords \
                    and f.attr not in ("remove", "append", "index", "insert"):
                # a method of the same object (a private helper): executed through the real class
                return self.call(env[f.value.id], f.attr, [self.expr(a, env) for a in e.args])
            if isinstance(f, ast.Attribute) and f.attr == "insert" and len(e.args) == 2 and not e.keywords \
                    and isinstance(f.value, ast.Attribute) and isinstance(f.value.value, ast.Name) and isinstance(env.get(f.value.value.id), Obj):
                o, fld = env[f.value.value.id], f.value.attr
                lst = o.fields.get(fld)
                if not isinstance(lst, SymList):
                    raise Unsupported("list method on a non-list")
                x = self.expr(e.args[1], env)
                pos_e = e.args[0]
                if isinstance(pos_e, ast.Call) and isinstance(pos_e.func, ast.Name) and pos_e.func.id == "len" and len(pos_e.args) == 1 \
                        and ast.unparse(pos_e.args[0]) == ast.unparse(f.value):
                    o.fields[fld] = SymList(z3.Store(lst.arr, lst.n, x), lst.n + 1)        # insert at the end = append
                    return None
                if isinstance(pos_e, ast.Constant) and isinstance(pos_e.value, int) and not isinstance(pos_e.value, bool) and pos_e.value >= 0:
                    k = z3.If(lst.n < pos_e.value, lst.n, z3.IntVal(pos_e.value))                 # positions behind the end mean the end
                    p = z3.Int("p")
                    o.fields[fld] = SymList(z3.Lambda([p], z3.If(p < k, lst.at(p), z3.If(p == k, x, lst.at(p - 1)))), lst.n + 1)
                    return None
                raise Unsupported("insert at " + ast.unparse(pos_e))
            if isinstance(f, ast.Attribute) and f.attr in ("remove", "append", "index") and len(e.args) == 1 and not e.keywords:
                # the receiver must be a field holding a list: the operation updates that field
                if not (isinstance(f.value, ast.Attribute) and isinstance(f.value.value, ast.Name) and isinstance(env.get(f.value.value.id), Obj)):
                    raise Unsupported("list method on " + ast.unparse(f.value))
                o, fld = env[f.value.value.id], f.value.attr
                lst = o.fields.get(fld)
                if not isinstance(lst, SymList):
                    raise Unsupported("list method on a non-list")
                x = self.expr(e.args[0], env)
                if f.attr == "append":
                    o.fields[fld] = SymList(z3.Store(lst.arr, lst.n, x), lst.n + 1)
                    return None
                if f.attr == "index":
                    if "__bound__" in env:
                        # inside a comprehension: the first position as a function of the bound variable
                        v, n = env["__bound__"]
                        if self.witness is None:
                            raise Unsupported("index needs a witness")
                        F = z3.Function("first!%d" % (self.fresh + 1), z3.IntSort(), z3.IntSort())
                        self.fresh += 1
                        w = self.witness(lst, v)
                        j = z3.Int("j")
                        rng = z3.And(0 <= v, v < n)
                        self.obligations.append(("index:element_occurs", z3.ForAll([v], z3.Implies(rng, z3.And(0 <= w, w < lst.n, lst.at(w) == x)))))
                        self.assumptions.append(z3.ForAll([v], z3.Implies(rng, z3.And(0 <= F(v), F(v) <= w, lst.at(F(v)) == x,
                                                                                       z3.ForAll([j], z3.Implies(z3.And(0 <= j, j < F(v)), lst.at(j) != x))))))
                        return F(v)
                    return self._occurs(lst, x, "index")
                k = self._occurs(lst, x, "remove")
                p = z3.Int("p")
                o.fields[fld] = SymList(z3.Lambda([p], z3.If(p < k, lst.at(p), lst.at(p + 1))), lst.n - 1)
                return None
        raise Unsupported("expression %s" % ast.unparse(e)[:60])


def prove(hyps, goal, timeout_ms):
    so = z3.Solver()
    so.set("timeout", int(timeout_ms))
    for h in hyps:
        so.add(h)
    so.add(z3.Not(goal))
    import time
    t0 = time.time()
    r = so.check()
    dt = time.time() - t0
    if r == z3.unsat:
        return "proved", None, dt
    if r == z3.sat:
        return "refuted", so.model(), dt
    return "unknown", None, dt
