"""Runs units: explores paths of the harness+real code, discharges obligations, replays counter-models."""
from __future__ import annotations
import os
import sys
import time
import json
import importlib
import traceback
import multiprocessing as mp
from . import ir, lower, path as pathmod
from .values import *
from .interp import Interp
from .api_sym import Session, make_api

VERIF = os.path.dirname(os.path.dirname(os.path.abspath(__file__)))
REPO = os.environ.get("VERIF_REPO", "/repo")


def new_interp(while_bound=64):
    it = Interp([("architecture_simulator", REPO), ("contracts", VERIF), ("spec", VERIF)], while_bound=while_bound)
    session = Session()
    it.native_modules["pyvc.api"] = make_api(it, session)
    it.native_modules["pyvc"] = ModuleV("pyvc", {"api": it.native_modules["pyvc.api"]})
    return it, session


class Obligation:
    __slots__ = ("unit", "name", "path_id", "status", "backend", "seconds", "model", "reason", "goal_text", "replay")

    def __init__(self, unit, name, path_id):
        self.unit = unit
        self.name = name
        self.path_id = path_id
        self.status = None
        self.backend = ""
        self.seconds = 0.0
        self.model = None
        self.reason = ""
        self.goal_text = ""
        self.replay = None

    def to_json(self):
        return {k: getattr(self, k) for k in self.__slots__ if k != "model"} | {"model": _model_json(self.model)}


def _model_json(m):
    if m is None:
        return None
    out = {}
    for k, v in m.items():
        if isinstance(v, tuple):
            out[k] = {"table": {str(i): (int(x) if not isinstance(x, bool) else x) for i, x in v[0].items()}, "default": v[1]}
        else:
            out[k] = int(v) if not isinstance(v, bool) else v
    return out


def model_from_json(j):
    out = {}
    for k, v in (j or {}).items():
        if isinstance(v, dict):
            out[k] = ({int(i): x for i, x in v["table"].items()}, v.get("default"))
        else:
            out[k] = v
    return out


class UnitResult:
    def __init__(self, name):
        self.name = name
        self.paths = 0
        self.aborted = 0
        self.obligations = []       # list[Obligation]
        self.status = "ok"          # ok | undecided | crash
        self.reason = ""
        self.seconds = 0.0
        self.solver_seconds = 0.0
        self.reached = set()
        self.functions = set()
        self.feas_calls = 0
        self.bounded = False
        self.meta = {}

    def summary(self):
        d = {}
        for o in self.obligations:
            d[o.status] = d.get(o.status, 0) + 1
        return d


def run_unit(module_name, unit_name, timeout_ms=10000, use_cvc5=False, max_paths=100000, while_bound=64):
    """Symbolically execute one unit and discharge its obligations. Returns UnitResult."""
    t0 = time.time()
    pathmod.clear_cache()
    res = UnitResult(unit_name)
    try:
        it, session = new_interp(while_bound)
        it.trace_calls = set()
        it.import_module(module_name)
        if unit_name not in session.units:
            res.status = "crash"
            res.reason = "unit not found in module"
            return res
        f, meta = session.units[unit_name]
        res.meta = meta

        def run(p):
            it.path = p
            it.stubs = {}
            it.current_exc = None
            it.depth = 0
            it._fresh_n = 0
            try:
                it.call(f, [], {})
                return ("normal", None)
            except PyRaise as pr:
                try:
                    txt = it.repr_(pr.exc)
                    txt = txt if isinstance(txt, str) else repr(txt)
                except Exception:
                    txt = pr.exc.cls.name
                return ("exception", txt)
            except BoundExceeded as e:
                return ("bound", str(e))

        pid = 0
        for p, out in pathmod.explore(run, max_paths=max_paths):
            if p is None:
                res.status = "undecided"
                res.reason = "path limit reached (%s)" % (out[1],)
                break
            pid += 1
            res.paths += 1
            res.feas_calls += p.solver_calls
            kind = out[0]
            if kind == "aborted":
                res.aborted += 1
                continue
            if kind == "bound":
                res.bounded = True
                # obligations reached before the bound still count; nothing is claimed beyond it
            for r in p.notes.get("reach", []):
                res.reached.add(r)
            # one query per group of checks that share a path condition; split only when it does not close
            groups = []
            for name, goal, pc in p.checks:
                if groups and len(groups[-1][0]) == len(pc):
                    groups[-1][1].append((name, goal))
                else:
                    groups.append((pc, [(name, goal)]))
            for pc, items in groups:
                live = [(n, g) for n, g in items if not (g.op == "bconst" and ir.cval(g))]
                batch_ok = False
                if len(live) > 1:
                    rb = lower.solve(pc, ir.conj(g for _, g in live), timeout_ms, use_cvc5=use_cvc5)
                    res.solver_seconds += rb.seconds
                    batch_ok = rb.status == "proved"
                for name, goal in items:
                    ob = Obligation(unit_name, name, pid)
                    if goal.op == "bconst" and ir.cval(goal):
                        ob.status, ob.backend = "proved", "structural"
                    elif batch_ok:
                        ob.status, ob.backend, ob.seconds = "proved", rb.backend, rb.seconds / len(live)
                    else:
                        r = lower.solve(pc, goal, timeout_ms, use_cvc5=use_cvc5)
                        ob.status, ob.backend, ob.seconds, ob.reason, ob.model = r.status, r.backend, r.seconds, r.reason, r.model
                        res.solver_seconds += r.seconds
                        if r.status != "proved":
                            ob.goal_text = ir.show(goal)[:600]
                    res.obligations.append(ob)
            if kind == "exception":
                # an exception escaping the harness violates the implicit noexc clause on this path
                ob = Obligation(unit_name, "noexc", pid)
                m = lower.solve(p.pc, ir.FALSE, timeout_ms)
                ob.status = "refuted" if m.status == "refuted" else ("proved" if m.status == "proved" else "unknown")
                ob.backend, ob.seconds, ob.model = m.backend, m.seconds, m.model
                ob.reason = "uncaught " + str(out[1])[:300]
                res.solver_seconds += m.seconds
                res.obligations.append(ob)
        res.functions = set(it.trace_calls)
    except Unsupported as e:
        res.status = "undecided"
        res.reason = "unsupported: " + str(e)
    except Exception as e:
        res.status = "crash"
        res.reason = "".join(traceback.format_exception(type(e), e, e.__traceback__))[-3000:]
    res.seconds = time.time() - t0
    return res


# ----------------------------------------------------------------------------- native replay

def native_replay(module_name, unit_name, model):
    """Run the unit natively under CPython with a concrete model. Returns dict(results, exception, assume_failed)."""
    if VERIF not in sys.path:
        sys.path.insert(0, VERIF)
    if sys.path[0] != REPO:
        sys.path.insert(0, REPO)
    from . import api, slices
    mod = importlib.import_module(module_name)
    f, meta = api.UNITS[unit_name]
    api.reset(model)
    out = {"results": [], "exception": None, "assume_failed": False}
    try:
        f()
    except api.AssumeFailed:
        out["assume_failed"] = True
    except slices.SliceMismatch as e:
        # the harness no longer matches the source: this run says nothing about the code
        out["assume_failed"] = True
        out["harness_mismatch"] = str(e)[:300]
    except Exception as e:
        out["exception"] = "%s: %s" % (type(e).__name__, (repr(e) if not str(e) else str(e))[:500])
    out["results"] = list(api.RESULTS)
    out["notes"] = {k: repr(v)[:300] for k, v in api.NOTES.items()}
    return out


def native_replay_isolated(module_name, unit_name, model):
    """native_replay in a forked child: a counter-model is replayed on a process image in which no earlier native run
    has left anything behind (class-level tables edited in place, patched methods, caches) -- and leaves nothing behind"""
    import pickle
    r, w = os.pipe()
    pid = os.fork()
    if pid == 0:
        try:
            os.close(r)
            try:
                out = native_replay(module_name, unit_name, model)
            except BaseException as e:
                out = {"results": [], "exception": "replay crashed: %r" % (e,), "assume_failed": False, "notes": {}}
            with os.fdopen(w, "wb") as f:
                pickle.dump(out, f)
        finally:
            os._exit(0)
    os.close(w)
    with os.fdopen(r, "rb") as f:
        data = f.read()
    os.waitpid(pid, 0)
    if not data:
        return {"results": [], "exception": "replay child died", "assume_failed": False, "notes": {}}
    return pickle.loads(data)


def _sample_int(rnd, lo, hi):
    if lo is not None and hi is not None and hi - lo <= 64:
        return rnd.randint(lo, hi)
    cands = [0, 1, -1, 2, 3, 4, 5, 7, 8, 31, 32, 33, 127, 128, 255, 256, 2047, 2048, 4095, 4096, 65535, 65536,
             2 ** 31 - 1, 2 ** 31, 2 ** 31 + 1, 2 ** 32 - 1, 2 ** 32, 2 ** 32 + 1, -2 ** 31, -2 ** 31 - 1, -2048, -2049, -4096,
             2 ** 14, 2 ** 14 - 1, 2 ** 14 + 1]
    r = rnd.random()
    if r < 0.35:
        v = rnd.choice(cands)
    elif r < 0.5 and lo is not None and hi is not None:
        v = rnd.choice([lo, hi, lo + 1, hi - 1])
    elif lo is not None and hi is not None:
        if rnd.random() < 0.5:
            v = rnd.randint(lo, hi)
        else:
            bl = rnd.randint(0, max(1, (hi - lo).bit_length()))
            v = lo + rnd.getrandbits(bl) if rnd.random() < 0.5 else hi - rnd.getrandbits(bl)
    else:
        v = rnd.getrandbits(rnd.randint(1, 40)) * rnd.choice([1, -1])
    if lo is not None and v < lo:
        v = lo
    if hi is not None and v > hi:
        v = hi
    return v


def adjudicate(module_name, unit_name, n, seed=0, want=None):
    """BOUNDED stand-in for an undecided unit/obligation: the contract is evaluated natively on the real code for n
    pseudo-random + boundary inputs.  Returns (evaluations, failure or None); failure = dict(model, replay, name)."""
    import random
    from . import api
    rnd = random.Random(seed * 7919 + hash(unit_name) % 100003)
    # discover the inputs with one default run
    rep = native_replay(module_name, unit_name, {})
    decls = dict(api.INPUTS)
    evals = 0
    for i in range(n):
        model = {}
        drawn = {}      # declared range -> values drawn so far: equalities between inputs of one kind (tags, register
        #                 numbers, addresses) are what most contracts branch on, independent draws practically never hit them
        for name, d in decls.items():
            if d[0] == "int":
                pool = drawn.setdefault((d[1], d[2]), [])
                if pool and rnd.random() < 0.3:
                    model[name] = rnd.choice(pool)
                else:
                    model[name] = _sample_int(rnd, d[1], d[2])
                pool.append(model[name])
            elif d[0] == "bool":
                model[name] = rnd.random() < 0.5
            elif d[0] == "list":
                model[name] = ({j: _sample_int(rnd, d[2], d[3]) for j in range(d[1])}, None)
        api.LAZY[0] = random.Random(rnd.getrandbits(32))
        try:
            rep = native_replay(module_name, unit_name, model)
            maps = {name: m for name, (m, _) in api.LAZY_MAPS.items()}
        finally:
            api.LAZY[0] = None
        decls.update(api.INPUTS)
        if rep["assume_failed"]:
            continue
        evals += 1
        from . import fields
        bad = [nm for nm, ok in rep["results"] if not ok and fields.unmodelled(nm) is None]
        if rep["exception"] is not None:
            bad.append("noexc")
        if want is not None:
            base = want
            for suf in (".keys", ".values"):
                if base.endswith(suf):
                    base = base[: -len(suf)]
            bad = [b for b in bad if b == want or b.startswith(base)]
        if bad:
            for name, m in maps.items():
                pres = dict(m._seen)
                vals = dict(m._pre)
                model[name] = (vals, None)
                model[name + "#p"] = (pres, None)
            return evals, {"model": model, "replay": rep, "name": bad[0]}
    return evals, None


def confirm(ob_name, rep):
    """Does the native run exhibit the failure the obligation names?"""
    if rep["assume_failed"]:
        return False
    if ob_name == "noexc":
        return rep["exception"] is not None
    base = ob_name
    for suf in (".keys", ".values"):
        if base.endswith(suf):
            base = base[: -len(suf)]
    for n, ok in rep["results"]:
        if not ok and (n == ob_name or n.startswith(base)):
            return True
    return False


# ----------------------------------------------------------------------------- pool

def _worker(args):
    module_name, unit_name, kw = args
    kw = dict(kw)
    limit = kw.pop("unit_timeout_s", 600)
    import signal

    class _UnitTimeout(BaseException):
        pass

    def _alarm(signum, frame):
        raise _UnitTimeout()
    try:
        signal.signal(signal.SIGALRM, _alarm)
        signal.alarm(int(limit))
        r = run_unit(module_name, unit_name, **kw)
        signal.alarm(0)
    except _UnitTimeout:
        r = UnitResult(unit_name)
        r.status = "undecided"
        r.reason = "unit wall-clock limit of %ds exceeded" % limit
    except BaseException as e:   # never lose a unit silently
        signal.alarm(0)
        r = UnitResult(unit_name)
        r.status = "crash"
        r.reason = repr(e)
    # replay refutations natively in the worker (same tree the VCs came from)
    seen_names = {}
    for ob in r.obligations:
        if ob.status == "refuted":
            try:
                # the first replays of each obligation run in a forked child (clean process image); when the same
                # obligation is refuted on very many paths the rest are replayed in-process
                seen_names[ob.name] = seen_names.get(ob.name, 0) + 1
                rep = (native_replay_isolated if seen_names[ob.name] <= 3 else native_replay)(module_name, unit_name, ob.model)
                ob.replay = {"confirmed": confirm(ob.name, rep), **rep}
            except BaseException as e:
                ob.replay = {"confirmed": False, "error": repr(e)[:500]}
    return r


def _adj_worker(args):
    module_name, unit_name, n, seed = args
    try:
        return adjudicate(module_name, unit_name, n, seed)
    except BaseException as e:
        return 0, {"error": repr(e)[:500]}


def run_adjudications(jobs, n, seed, procs=None):
    procs = procs or min(16, os.cpu_count() or 4)
    args = [(m, u, n, seed) for m, u in jobs]
    if not args:
        return []
    if len(args) == 1:
        return [_adj_worker(args[0])]
    ctx = mp.get_context("fork")
    with ctx.Pool(min(procs, len(args))) as pool:
        return pool.map(_adj_worker, args, chunksize=1)


def list_units(module_name):
    it, session = new_interp()
    it.import_module(module_name)
    return [(n, m) for n, (f, m) in session.units.items()]


def run_units(jobs, procs=None, **kw):
    """jobs: list of (module_name, unit_name). Returns list[UnitResult] in order."""
    procs = procs or min(16, os.cpu_count() or 4)
    args = [(m, u, kw) for m, u in jobs]
    if procs == 1 or len(jobs) == 1:
        return [_worker(a) for a in args]
    ctx = mp.get_context("fork")
    with ctx.Pool(procs, maxtasksperchild=8) as pool:
        return pool.map(_worker, args, chunksize=1)
