#!/bin/sh
# usage: pyvc/refcheck.sh <worktree carrying a behaviour-preserving change> <props...>
# every check must exit 0 without a VIOLATION / CHECKER-CRASH line; undecided obligations are listed (they are not alarms)
WT=$1; shift
cd /verif
for P in "$@"; do
  OUT=$(VERIF_REPO=$WT VERIF_NO_EVIDENCE=1 ./check $P --tier quick -v 2>&1); RC=$?
  echo "rc=$RC $(echo "$OUT" | tail -1)"
  echo "$OUT" | grep -E "^(VIOLATION|CHECKER-CRASH|UNDECIDED|ENGINE-GAP)" | sort | uniq -c | sort -rn | head -8 | cut -c1-260
done
rm -rf $WT/_replays
