"""Regression of the machinery against the kept seeded changes: every seeded/<id>/patch.diff is applied to a scratch
worktree of /repo (never to /repo itself), the property's check is run against it (VERIF_REPO), and the verdict is
compared with "must be reported".  usage: python -m pyvc.reseed [--tier quick] [ids...]   exit 0 iff all are caught."""
import json
import os
import subprocess
import sys
import tempfile

V = os.path.dirname(os.path.dirname(os.path.abspath(__file__)))


def main():
    args = sys.argv[1:]
    tier = "quick"
    if "--tier" in args:
        i = args.index("--tier")
        tier = args[i + 1]
        del args[i:i + 2]
    ids = args or sorted(os.listdir(os.path.join(V, "seeded")))
    missed = []
    for sid in ids:
        d = os.path.join(V, "seeded", sid)
        if not os.path.exists(os.path.join(d, "patch.diff")):
            continue
        meta = json.load(open(os.path.join(d, "meta.json")))
        props = [meta["property"]] + [p for p in meta.get("also_checked_by", [])]
        wt = tempfile.mkdtemp(prefix="reseed_", dir="/tmp")
        os.rmdir(wt)
        try:
            subprocess.run(["git", "-C", "/repo", "worktree", "add", "-q", "--detach", wt], check=True)
            subprocess.run(["git", "-C", wt, "apply", os.path.join(d, "patch.diff")], check=True)
            caught = False
            lines = []
            for p in props:
                env = dict(os.environ, VERIF_REPO=wt, VERIF_NO_EVIDENCE="1")
                r = subprocess.run([os.path.join(V, "check"), p, "--tier", tier], cwd=V, env=env, capture_output=True, text=True)
                v = [l for l in r.stdout.splitlines() if l.startswith("VIOLATION")]
                lines.append("%s rc=%d violations=%d %s" % (p, r.returncode, len(v), v[0][:150] if v else r.stdout.strip().splitlines()[-1][:150]))
                if r.returncode == 1 and v:
                    caught = True
                    break
            print("%-8s %s  %s" % (sid, "CAUGHT" if caught else "MISSED", " | ".join(lines)), flush=True)
            if not caught:
                missed.append(sid)
        finally:
            subprocess.run(["git", "-C", "/repo", "worktree", "remove", "--force", wt])
            subprocess.run(["rm", "-rf", os.path.join(V, "replays")])
    print("seeded=%d missed=%d %s" % (len(ids), len(missed), missed))
    sys.exit(1 if missed else 0)


main()
