"""Builtins, native-type methods, library shims (fixedint model, dataclasses, enum, math, typing...)."""
from __future__ import annotations
import math
from . import ir
from .ir import Term
from .values import *
from . import ops


def _b(name):
    def deco(fn):
        fn._bname = name
        return fn
    return deco


class BuiltinMixin:
    # ------------------------------------------------------------------ setup
    def init_builtins(self):
        B = self.builtins = {}
        obj = ClassV("object", [], {}, "")
        obj.mro = [obj]
        B["object"] = obj

        def exc_init(it, args, kw):
            o = args[0]
            o.fields["args"] = tuple(args[1:])
            return None

        def mkexc(name, base):
            c = ClassV(name, [base], {}, "")
            c.native_base = "exception"
            c.mro = [c] + base.mro
            B[name] = c
            return c
        be = ClassV("BaseException", [obj], {"__init__": Builtin("BaseException.__init__", exc_init)}, "")
        be.native_base = "exception"
        be.mro = [be, obj]
        B["BaseException"] = be
        ex = mkexc("Exception", be)
        for n in ("ValueError", "TypeError", "AssertionError", "RuntimeError", "AttributeError", "NameError",
                  "LookupError", "ArithmeticError", "StopIteration", "OSError"):
            mkexc(n, ex)
        mkexc("KeyError", B["LookupError"])
        mkexc("IndexError", B["LookupError"])
        mkexc("NotImplementedError", B["RuntimeError"])
        mkexc("RecursionError", B["RuntimeError"])
        mkexc("ZeroDivisionError", B["ArithmeticError"])
        mkexc("OverflowError", B["ArithmeticError"])
        mkexc("UnicodeError", B["ValueError"])
        for t in (int, bool, str, float, list, tuple, dict, set, frozenset, range, type, slice, bytes):
            B[t.__name__] = t
        B["None"] = None
        B["True"] = True
        B["False"] = False
        B["NotImplemented"] = NotImplemented
        B["Ellipsis"] = Ellipsis
        for n in dir(self):
            f = getattr(self, n)
            bn = getattr(f, "_bname", None)
            if bn:
                B[bn] = Builtin(bn, (lambda ff: lambda it, a, k: ff(a, k))(f))
        self._init_native_modules()

    def _init_native_modules(self):
        NM = self.native_modules
        # fixedint
        fx = {}
        for w in (8, 16, 32, 64):
            fx["UInt%d" % w] = FixedType(w, False)
            fx["Int%d" % w] = FixedType(w, True)

        def fixedint_factory(it, a, k):
            width = a[0]
            signed = a[1] if len(a) > 1 else k.get("signed", True)
            if k.get("mutable") or (len(a) > 2 and a[2]):
                raise Unsupported("MutableFixedInt")
            return FixedType(width, bool(signed))
        fx["FixedInt"] = Builtin("FixedInt", fixedint_factory)
        NM["fixedint"] = ModuleV("fixedint", fx)
        # typing-like modules: everything is a dummy
        for n in ("typing", "abc", "__future__", "collections.abc", "pyparsing", "re"):
            m = ModuleV(n, {"TYPE_CHECKING": False})
            m.lenient = True
            NM[n] = m
        NM["abc"].ns["abstractmethod"] = Builtin("abstractmethod", lambda it, a, k: a[0])
        abc_cls = ClassV("ABC", [self.builtins["object"]], {}, "abc")
        abc_cls.mro = [abc_cls, self.builtins["object"]]
        NM["abc"].ns["ABC"] = abc_cls
        # dataclasses
        NM["dataclasses"] = ModuleV("dataclasses", {
            "dataclass": Builtin("dataclass", self._dataclass),
            "field": Builtin("field", self._field),
        })
        # enum
        enum_base = ClassV("Enum", [self.builtins["object"]], {"__is_enum_base__": True}, "enum")
        enum_base.mro = [enum_base, self.builtins["object"]]
        enum_base.is_enum = True
        enum_base.enum_members = []
        NM["enum"] = ModuleV("enum", {"Enum": enum_base})
        # math
        NM["math"] = ModuleV("math", {
            "ceil": Builtin("ceil", self._math_ceil),
            "floor": Builtin("floor", self._math_floor),
            "log2": Builtin("log2", self._math_log2),
        })
        NM["struct"] = ModuleV("struct", {"unpack": Builtin("unpack", self._struct_unpack)})
        NM["collections"] = ModuleV("collections", {"defaultdict": Builtin("defaultdict", self._defaultdict)})
        NM["json"] = ModuleV("json", {"dumps": Builtin("dumps", lambda it, a, k: (_ for _ in ()).throw(Unsupported("json.dumps")))})
        NM["time"] = ModuleV("time", {"time": Builtin("time", lambda it, a, k: SInt(it.fresh_var("wallclock")))})

    _fresh = 0

    def fresh_var(self, prefix, lo=None, hi=None):
        self._fresh_n = getattr(self, "_fresh_n", 0) + 1
        return ir.var("%s!%d" % (prefix, self._fresh_n), lo, hi)

    # ------------------------------------------------------------------ dataclasses
    def _field(self, it, a, k):
        if "default_factory" in k:
            return FieldSpec(factory=k["default_factory"], has_default=True)
        if "default" in k:
            return FieldSpec(default=k["default"], has_default=True)
        return FieldSpec()

    def _dataclass(self, it, a, k):
        if not a:
            return Builtin("dataclass()", lambda it2, a2, k2: self._dataclass(it2, a2, k))
        cls = a[0]
        own = []
        for n in getattr(cls, "ann_order", []):
            if n in cls.ns:
                d = cls.ns[n]
                spec = d if isinstance(d, FieldSpec) else FieldSpec(default=d, has_default=True)
            else:
                spec = FieldSpec()
            own.append((n, spec))
        cls.dc_own = own
        fields = []
        seen = {}
        for c in reversed(cls.mro):
            if c is cls or c.is_dataclass:
                for n, spec in getattr(c, "dc_own", []):
                    if n in seen:
                        fields[seen[n]] = (n, spec)
                    else:
                        seen[n] = len(fields)
                        fields.append((n, spec))
        cls.is_dataclass = True
        cls.dc_fields = fields
        cls.dc_eq = k.get("eq", True) and "__eq__" not in cls.ns
        # class-level defaults that are FieldSpec must not stay visible as attributes
        for n, spec in fields:
            if n in cls.ns and isinstance(cls.ns[n], FieldSpec):
                if spec.factory is None and spec.has_default:
                    cls.ns[n] = spec.default
                else:
                    del cls.ns[n]
        if "__init__" not in cls.ns:
            def dc_init(it2, args, kw, cls=cls):
                o = args[0]
                pos = args[1:]
                flds = cls.dc_fields
                if len(pos) > len(flds):
                    it2.raise_builtin("TypeError", "%s.__init__() takes %d positional arguments" % (cls.name, len(flds)))
                vals = {}
                for (n, spec), v in zip(flds, pos):
                    vals[n] = v
                for kk, v in kw.items():
                    if kk in vals or kk not in {n for n, _ in flds}:
                        it2.raise_builtin("TypeError", "%s.__init__() got an unexpected keyword argument '%s'" % (cls.name, kk))
                    vals[kk] = v
                for n, spec in flds:
                    if n in vals:
                        o.fields[n] = vals[n]
                    elif spec.factory is not None:
                        o.fields[n] = it2.call(spec.factory, [], {})
                    elif spec.has_default:
                        o.fields[n] = spec.default
                    else:
                        it2.raise_builtin("TypeError", "%s.__init__() missing required argument '%s'" % (cls.name, n))
                if cls.native_base == "exception":
                    o.fields.setdefault("args", tuple(pos))
                return None
            cls.ns["__init__"] = Builtin(cls.name + ".__init__", dc_init)
        return cls

    def _defaultdict(self, it, a, k):
        d = DictV()
        if len(a) > 1:
            for kk, vv in self.dict_items(a[1]):
                self.dict_set(d, kk, vv)
        d.default_factory = a[0] if a else None
        return d

    # ------------------------------------------------------------------ math / struct
    def _math_ceil(self, it, a, k):
        x = a[0]
        if isinstance(x, (int, float)):
            return math.ceil(x)
        if isinstance(x, SQuot):
            # ceil(a / b) for non-negative a, positive b below 2**53: -(-a // b)
            if x.a.lo is None or x.a.lo < 0 or x.a.hi is None or x.a.hi >= 2 ** 53 or x.b.lo is None or x.b.lo <= 0 or x.b.hi >= 2 ** 53:
                raise Unsupported("math.ceil of quotient outside the exact range")
            return ops.from_term(ir.neg(ir.fdiv(ir.neg(x.a), x.b)))
        raise Unsupported("math.ceil of %r" % (x,))

    def _math_floor(self, it, a, k):
        x = a[0]
        if isinstance(x, (int, float)):
            return math.floor(x)
        raise Unsupported("math.floor symbolic")

    def _math_log2(self, it, a, k):
        x = ops.concretize(self, a[0], "log2 argument") if not isinstance(a[0], float) else a[0]
        if x <= 0:
            self.raise_builtin("ValueError", "math domain error")
        return math.log2(x)

    def _struct_unpack(self, it, a, k):
        fmt, data = a
        if isinstance(data, tuple) and data and data[0] == "bytes4be" and fmt == ">f":
            return (("float32", data[1]),)
        raise Unsupported("struct.unpack")

    # ------------------------------------------------------------------ types
    def type_of(self, v):
        if isinstance(v, Obj):
            return v.cls
        if isinstance(v, SInt):
            return int
        if isinstance(v, SBool):
            return bool
        if isinstance(v, FixedV):
            return v.ft
        if isinstance(v, SymStr):
            return str
        if isinstance(v, DictV):
            return dict
        if isinstance(v, ClassV) or isinstance(v, FixedType):
            return type
        if isinstance(v, SQuot):
            return float
        return type(v)

    def isinstance_(self, v, t) -> bool:
        if isinstance(t, tuple):
            return any(self.isinstance_(v, x) for x in t)
        if isinstance(t, TypingDummy):
            raise Unsupported("isinstance against typing object")
        if isinstance(t, ClassV):
            if isinstance(v, Obj):
                return t in v.cls.mro
            return t is self.builtins["object"]
        if isinstance(t, FixedType):
            return isinstance(v, FixedV) and v.ft is t
        tv = self.type_of(v)
        if t is int:
            return tv is int or tv is bool or isinstance(tv, FixedType)
        if t is list:
            return tv is list or (isinstance(v, Obj) and v.items is not None)
        if isinstance(tv, type) and isinstance(t, type):
            return issubclass(tv, t)
        if t is object:
            return True
        return False

    @_b("isinstance")
    def b_isinstance(self, a, k):
        return self.isinstance_(a[0], a[1])

    @_b("issubclass")
    def b_issubclass(self, a, k):
        c, t = a
        if isinstance(t, tuple):
            return any(self.b_issubclass([c, x], {}) for x in t)
        if isinstance(c, ClassV) and isinstance(t, ClassV):
            return t in c.mro
        if isinstance(c, FixedType):
            return t is int or c is t
        if isinstance(c, type) and isinstance(t, type):
            return issubclass(c, t)
        return False

    @_b("type")
    def b_type(self, a, k):
        if len(a) != 1:
            raise Unsupported("type() with 3 arguments")
        return self.type_of(a[0])

    def call_native_type(self, t, a, k):
        if t is int:
            return self.b_int(a, k)
        if t is bool:
            if not a:
                return False
            return ops.truth_val(self, a[0])
        if t is str:
            return self.str_(a[0]) if a else ""
        if t is list:
            if a and isinstance(a[0], LogList):
                return a[0].clone()
            if a and isinstance(a[0], Obj) and isinstance(a[0].items, LogList):
                return a[0].items.clone()
            return self.iterate(a[0]) if a else []
        if t is tuple:
            return tuple(self.iterate(a[0])) if a else ()
        if t is set:
            return set(self.iterate(a[0])) if a else set()
        if t is frozenset:
            return frozenset(self.iterate(a[0])) if a else frozenset()
        if t is dict:
            d = DictV()
            if a:
                src = a[0]
                if isinstance(src, DictV):
                    for kk, vv in self.dict_items(src):
                        self.dict_set(d, kk, vv)
                else:
                    for kv in self.iterate(src):
                        kk, vv = self.iterate(kv)
                        self.dict_set(d, kk, vv)
            for kk, vv in k.items():
                self.dict_set(d, kk, vv)
            return d
        if t is range:
            args = [ops.concretize(self, x, "range bound") for x in a]
            return range(*args)
        if t is float:
            x = a[0]
            if isinstance(x, (int, float, str)):
                return float(x)
            raise Unsupported("float() of symbolic value")
        if t is type:
            return self.b_type(a, k)
        if t is slice:
            return ("slice",) + tuple(a) + (None,) * (3 - len(a))
        raise Unsupported("call of native type %s" % t.__name__)

    def fixed_new(self, ft, v):
        if isinstance(v, str):
            try:
                return FixedV(ft, ft.rectify(int(v)))
            except ValueError:
                self.raise_builtin("ValueError", "invalid literal for int()")
        if isinstance(v, SQuot) or isinstance(v, float):
            v = self.b_int([v], {})
        if isinstance(v, Obj):
            v = self.b_int([v], {})
        return ops.mk_fixed(ft, v)

    # ------------------------------------------------------------------ int / str / repr / format
    @_b("#int")
    def b_int(self, a, k):
        if not a:
            return 0
        x = a[0]
        base = a[1] if len(a) > 1 else k.get("base")
        if isinstance(x, str):
            try:
                return int(x, base) if base is not None else int(x)
            except ValueError:
                self.raise_builtin("ValueError", "invalid literal for int() with base %s: %r" % (base if base is not None else 10, x))
        if base is not None and not isinstance(x, SymStr):
            raise Unsupported("int() with base on non-string")
        if isinstance(x, float):
            return int(x)
        if isinstance(x, SQuot):
            # int(a / b): exact truncating division as long as both operands are at most 2**32 in magnitude
            for t in (x.a, x.b):
                if t.lo is None or t.hi is None or max(abs(t.lo), abs(t.hi)) > 2 ** 32:
                    raise Unsupported("int(a / b) with operands not proved within 2**32 (float rounding not modelled)")
            return ops.from_term(ir.tdiv(x.a, x.b))
        if isinstance(x, Obj):
            m, _ = x.cls.lookup("__int__")
            if m is None:
                m, _ = x.cls.lookup("__index__")
            if m is None:
                self.raise_builtin("TypeError", "int() argument must be a string or a number, not '%s'" % x.cls.name)
            return self.call(m, [x], {})
        if isinstance(x, SymStr):
            if len(x.parts) == 1 and not isinstance(x.parts[0], str) and x.parts[0][0] in ("dec", "bit", "hexd") and base in (None, 10, 0):
                if x.parts[0][0] == "hexd" and (x.parts[0][1].hi is None or x.parts[0][1].hi > 9):
                    raise Unsupported("int() of a symbolic hex digit")
                return ops.from_term(x.parts[0][1])      # int(str(n)) == n
            raise Unsupported("int() of symbolic string")
        if x is None:
            self.raise_builtin("TypeError", "int() argument must be a string, a bytes-like object or a real number, not 'NoneType'")
        return ops.int_of(x)

    def str_(self, v):
        if isinstance(v, (str, SymStr)):
            return v
        if isinstance(v, bool):
            return str(v)
        if isinstance(v, (int, float)) or v is None:
            return str(v)
        if isinstance(v, (SInt, FixedV)):
            x = ops.int_of(v)
            if isinstance(x, int):
                return str(x)
            if x.t.lo is not None and x.t.lo >= 0 and x.t.hi is not None:
                if x.t.hi <= 1:
                    return SymStr([("bit", x.t)])
                if x.t.hi <= 9:
                    return SymStr([("hexd", x.t)])     # a decimal digit is the same character as the hex digit
            return SymStr([("dec", x.t)])
        if isinstance(v, SBool):
            if self.path.decide(v.t, "str(bool)"):
                return "True"
            return "False"
        if isinstance(v, Obj):
            m, _ = v.cls.lookup("__str__")
            if m is not None:
                return self.call(m, [v], {})
            if v.cls.native_base == "exception":
                m, owner = v.cls.lookup("__repr__")
                args = v.fields.get("args", ())
                if len(args) == 1:
                    return self.str_(args[0])
                if not args:
                    return ""
                return self.repr_(tuple(args))
            return self.repr_(v)
        if isinstance(v, tuple) and len(v) == 2 and v[0] == "float32":
            return SymStr([("float32", v[1])])
        return self.repr_(v)

    def repr_(self, v):
        if isinstance(v, str):
            return repr(v)
        if isinstance(v, SymStr):
            return mkstr(["'"] + v.parts + ["'"])
        if isinstance(v, FixedV):
            return mkstr([v.ft.name + "("] + SymStr.of(self.str_(v)).parts + [")"])
        if isinstance(v, (int, float, bool, SInt, SBool)) or v is None:
            return self.str_(v)
        if isinstance(v, Obj):
            m, owner = v.cls.lookup("__repr__")
            if m is not None:
                return self.call(m, [v], {})
            if v.cls.is_dataclass:
                parts = [v.cls.name + "("]
                first = True
                for n, _ in v.cls.dc_fields:
                    if not first:
                        parts.append(", ")
                    first = False
                    parts.append(n + "=")
                    parts.extend(SymStr.of(self.repr_(v.fields.get(n))).parts)
                parts.append(")")
                return mkstr(parts)
            if v.cls.native_base == "exception":
                args = v.fields.get("args", ())
                parts = [v.cls.name + "("]
                for i, x in enumerate(args):
                    if i:
                        parts.append(", ")
                    parts.extend(SymStr.of(self.repr_(x)).parts)
                parts.append(")")
                return mkstr(parts)
            if v.cls.is_enum:
                return "<%s.%s>" % (v.cls.name, v.fields["name"])
            if v.items is not None:
                return self.repr_(v.items)
            return "<%s object>" % v.cls.name
        if isinstance(v, (list, tuple)):
            op, cl = ("[", "]") if isinstance(v, list) else ("(", ")")
            parts = [op]
            for i, x in enumerate(v):
                if i:
                    parts.append(", ")
                parts.extend(SymStr.of(self.repr_(x)).parts)
            if isinstance(v, tuple) and len(v) == 1:
                parts.append(",")
            parts.append(cl)
            return mkstr(parts)
        if isinstance(v, ClassV):
            return "<class '%s'>" % v.name
        if isinstance(v, DictV):
            parts = ["{"]
            for i, (kk, vv) in enumerate(self.dict_items(v)):
                if i:
                    parts.append(", ")
                parts.extend(SymStr.of(self.repr_(kk)).parts)
                parts.append(": ")
                parts.extend(SymStr.of(self.repr_(vv)).parts)
            parts.append("}")
            return mkstr(parts)
        return repr(v)

    @_b("repr")
    def b_repr(self, a, k):
        return self.repr_(a[0])

    @_b("format")
    def b_format(self, a, k):
        return self.format_(a[0], a[1] if len(a) > 1 else "")

    def format_(self, v, spec):
        if spec == "":
            return self.str_(v)
        if isinstance(v, (str, SymStr)):
            c = v if isinstance(v, str) else v.concrete()
            if c is not None:
                return format(c, spec)
            raise Unsupported("format spec on symbolic string")
        if isinstance(v, float) or (isinstance(v, int) and spec.endswith("f")):
            return format(v, spec)
        if isinstance(v, SQuot) or (isinstance(v, (SInt,)) and spec.endswith("f")):
            return SymStr([("fmt", ir.lift(v.t) if isinstance(v, SInt) else v.a, spec)])
        x = ops.int_of(v)
        if isinstance(x, int):
            return format(x, spec)
        t = x.t
        # [0][width](X|x|b|d)
        import re
        m = re.fullmatch(r"(0?)(\d*)([Xxbd])", spec)
        if not m:
            raise Unsupported("format spec %r" % spec)
        zero, width, kind = m.group(1), m.group(2), m.group(3)
        width = int(width) if width else 0
        if kind == "d" and not width:
            return SymStr([("dec", t)])
        if kind in ("X", "b") and t.lo is not None and t.lo >= 0 and t.hi is not None and zero and width:
            base_bits = 4 if kind == "X" else 1
            ndig = max(1, -(-t.hi.bit_length() // base_bits))
            if ndig <= width:
                parts = []
                for i in range(width - 1, -1, -1):
                    d = ir.mod(ir.fdiv(t, 1 << (base_bits * i)), 1 << base_bits)
                    if d.op == "const":
                        parts.append("0123456789ABCDEF"[ir.cval(d)])
                    else:
                        parts.append(("hexd" if kind == "X" else "bit", d))
                return mkstr(parts)
        if kind == "X" and not width:
            return SymStr([("hex", t)])
        return SymStr([("fmt", t, spec)])

    @_b("str.format")
    def str_format(self, a, k):
        fmt = a[0]
        if not isinstance(fmt, str):
            c = fmt.concrete() if isinstance(fmt, SymStr) else None
            if c is None:
                raise Unsupported("format on symbolic template")
            fmt = c
        import string
        parts = []
        auto = 0
        for lit, field, spec, conv in string.Formatter().parse(fmt):
            if lit:
                parts.append(lit)
            if field is None:
                continue
            if field == "":
                val = a[1 + auto]
                auto += 1
            elif field.isdigit():
                val = a[1 + int(field)]
            else:
                val = k[field]
            if conv == "r":
                val = self.repr_(val)
            elif conv == "s":
                val = self.str_(val)
            parts.extend(SymStr.of(self.format_(val, spec or "")).parts)
        return mkstr(parts)

    # ------------------------------------------------------------------ plain builtins
    @_b("len")
    def b_len(self, a, k):
        v = a[0]
        if isinstance(v, (list, tuple, str, set, frozenset, range)):
            return len(v)
        if isinstance(v, SymStr):
            ch = v.chars()
            if ch is None:
                raise Unsupported("len of string with unknown length")
            return len(ch)
        if isinstance(v, DictV):
            if v.base is not None or v.sym:
                raise Unsupported("len of symbolic dict")
            return len(v.entries)
        if isinstance(v, Obj):
            if v.items is not None:
                return len(v.items)
            m, _ = v.cls.lookup("__len__")
            if m is not None:
                return self.call(m, [v], {})
        raise Unsupported("len of %r" % (type(v).__name__,))

    @_b("enumerate")
    def b_enumerate(self, a, k):
        start = a[1] if len(a) > 1 else k.get("start", 0)
        return [(start + i, x) for i, x in enumerate(self.iterate(a[0]))]

    @_b("reversed")
    def b_reversed(self, a, k):
        return list(reversed(self.iterate(a[0])))

    @_b("zip")
    def b_zip(self, a, k):
        return [tuple(x) for x in zip(*[self.iterate(s) for s in a])]

    @_b("sorted")
    def b_sorted(self, a, k):
        items = self.iterate(a[0])
        key = k.get("key")
        keys = [self.call(key, [x], {}) for x in items] if key is not None else items
        if any(ops.is_sym(x) or not isinstance(x, (int, str, float, tuple)) for x in keys):
            raise Unsupported("sorted on symbolic keys")
        order = sorted(range(len(items)), key=lambda i: keys[i], reverse=bool(k.get("reverse", False)))
        return [items[i] for i in order]

    @_b("all")
    def b_all(self, a, k):
        acc = ir.TRUE
        for x in self.iterate(a[0]):
            t = ops.truth_val(self, x)
            if t is False:
                return False
            if t is not True:
                acc = ir.band_(acc, t.t)
        return ops.from_term(acc)

    @_b("any")
    def b_any(self, a, k):
        acc = ir.FALSE
        for x in self.iterate(a[0]):
            t = ops.truth_val(self, x)
            if t is True:
                return True
            if t is not False:
                acc = ir.bor_(acc, t.t)
        return ops.from_term(acc)

    @_b("sum")
    def b_sum(self, a, k):
        acc = a[1] if len(a) > 1 else 0
        for x in self.iterate(a[0]):
            acc = self.binop("add", acc, x)
        return acc

    def _minmax(self, a, is_min):
        items = self.iterate(a[0]) if len(a) == 1 else list(a)
        acc = items[0]
        for x in items[1:]:
            c = ops.compare(self, "Lt", x, acc) if is_min else ops.compare(self, "Gt", x, acc)
            if isinstance(c, bool):
                acc = x if c else acc
            else:
                m = ops.merge(c.t, x, acc)
                if m is NotImplemented:
                    acc = x if self.path.decide(c.t, "min/max") else acc
                else:
                    acc = m
        return acc

    @_b("min")
    def b_min(self, a, k):
        return self._minmax(a, True)

    @_b("max")
    def b_max(self, a, k):
        return self._minmax(a, False)

    @_b("abs")
    def b_abs(self, a, k):
        x = ops.int_of(a[0]) if not isinstance(a[0], float) else a[0]
        if isinstance(x, (int, float)):
            return abs(x)
        return ops.from_term(ir.ite(ir.lt(x.t, 0), ir.neg(x.t), x.t))

    @_b("pow")
    def b_pow(self, a, k):
        if len(a) == 3:
            raise Unsupported("3-argument pow")
        return self.binop("pow", a[0], a[1])

    @_b("bin")
    def b_bin(self, a, k):
        x = ops.int_of(a[0])
        if isinstance(x, int):
            return bin(x)
        return SymStr([("bin", x.t)])

    @_b("hex")
    def b_hex(self, a, k):
        x = ops.int_of(a[0])
        if isinstance(x, int):
            return hex(x)
        return SymStr([("hexlow", x.t)])

    @_b("chr")
    def b_chr(self, a, k):
        x = ops.int_of(a[0])
        if isinstance(x, int):
            try:
                return chr(x)
            except (ValueError, OverflowError):
                self.raise_builtin("ValueError", "chr() arg not in range(0x110000)")
        if x.t.lo is None or x.t.lo < 0 or x.t.hi is None or x.t.hi >= 0x110000:
            if not self.path.decide(ir.band_(ir.le(0, x.t), ir.lt(x.t, 0x110000)), "chr-range"):
                self.raise_builtin("ValueError", "chr() arg not in range(0x110000)")
        return SymStr([("chr", x.t)])

    @_b("ord")
    def b_ord(self, a, k):
        x = a[0]
        if isinstance(x, str):
            return ord(x)
        if isinstance(x, SymStr) and len(x.parts) == 1 and x.parts[0][0] == "chr":
            return ops.from_term(x.parts[0][1])
        raise Unsupported("ord of symbolic string")

    @_b("hasattr")
    def b_hasattr(self, a, k):
        try:
            self.get_attr(a[0], a[1])
            return True
        except PyRaise:
            return False

    @_b("getattr")
    def b_getattr(self, a, k):
        if len(a) > 2:
            try:
                return self.get_attr(a[0], a[1])
            except PyRaise:
                return a[2]
        return self.get_attr(a[0], a[1])

    @_b("vars")
    def b_vars(self, a, k):
        return self.get_attr(a[0], "__dict__")

    @_b("setattr")
    def b_setattr(self, a, k):
        self.set_attr(a[0], a[1], a[2])

    @_b("id")
    def b_id(self, a, k):
        return id(a[0])

    @_b("print")
    def b_print(self, a, k):
        return None

    @_b("iter")
    def b_iter(self, a, k):
        return self.iterate(a[0])

    @_b("callable")
    def b_callable(self, a, k):
        return isinstance(a[0], (FuncV, BoundMethod, Builtin, ClassV, FixedType, type))

    @_b("staticmethod")
    def b_staticmethod(self, a, k):
        return StaticM(a[0])

    @_b("classmethod")
    def b_classmethod(self, a, k):
        return ClassM(a[0])

    @_b("property")
    def b_property(self, a, k):
        return PropertyV(a[0])

    @_b("divmod")
    def b_divmod(self, a, k):
        return (self.binop("floordiv", a[0], a[1]), self.binop("mod", a[0], a[1]))

    @_b("round")
    def b_round(self, a, k):
        if all(isinstance(x, (int, float)) for x in a):
            return round(*a)
        raise Unsupported("round symbolic")

    @_b("map")
    def b_map(self, a, k):
        return [self.call(a[0], list(xs), {}) for xs in zip(*[self.iterate(s) for s in a[1:]])]

    @_b("filter")
    def b_filter(self, a, k):
        return [x for x in self.iterate(a[1]) if ops.truth(self, self.call(a[0], [x], {}) if a[0] is not None else x)]
