"""Regression of the machinery against the kept behaviour-preserving refactorings: every refactors/<id>/patch.diff is
applied to a scratch worktree of /repo (never to /repo itself) and the checks listed in its meta.json are run against
it (VERIF_REPO); each must exit 0 without a VIOLATION or CHECKER-CRASH line (undecided obligations are allowed and
listed).  usage: python -m pyvc.rerefactor [ids...]   exit 0 iff no check raised an alarm."""
import json
import os
import subprocess
import sys
import tempfile

V = os.path.dirname(os.path.dirname(os.path.abspath(__file__)))


def main():
    ids = sys.argv[1:] or sorted(os.listdir(os.path.join(V, "refactors")))
    alarms = []
    for rid in ids:
        d = os.path.join(V, "refactors", rid)
        meta = json.load(open(os.path.join(d, "meta.json")))
        wt = tempfile.mkdtemp(prefix="reref_", dir="/tmp")
        os.rmdir(wt)
        try:
            subprocess.run(["git", "-C", "/repo", "worktree", "add", "-q", "--detach", wt], check=True)
            subprocess.run(["git", "-C", wt, "apply", os.path.join(d, "patch.diff")], check=True)
            for p in meta["checks_that_must_stay_quiet"]:
                env = dict(os.environ, VERIF_REPO=wt, VERIF_NO_EVIDENCE="1")
                r = subprocess.run([os.path.join(V, "check"), p, "--tier", "quick"], cwd=V, env=env, capture_output=True, text=True)
                bad = [l for l in r.stdout.splitlines() if l.startswith(("VIOLATION", "CHECKER-CRASH"))]
                und = len([l for l in r.stdout.splitlines() if l.startswith("UNDECIDED")])
                print("%-3s %-4s rc=%d alarms=%d undecided-lines=%d  %s" % (rid, p, r.returncode, len(bad), und, r.stdout.strip().splitlines()[-1][:140]), flush=True)
                if r.returncode != 0 or bad:
                    alarms.append((rid, p, bad[:2]))
        finally:
            subprocess.run(["git", "-C", "/repo", "worktree", "remove", "--force", wt])
    print("refactorings=%d alarms=%d %s" % (len(ids), len(alarms), alarms))
    sys.exit(1 if alarms else 0)


main()
