"""Reference scheduler for the documented five-stage pipeline (DESIGN.md A.4) -- oracle of C07/C08.

Written from the documented rules, not from pipeline.py/stages.py:
  * one instruction is fetched per cycle; stages IF ID EX MEM WB; an instruction retires in its WB cycle;
  * registers are written (WB) before they are read (ID) within a cycle, there is no forwarding;
  * decode interlock (only with hazard detection): an instruction decoded while an older instruction that
    writes one of its source registers (not x0) is in EX or MEM in that cycle is held in ID for two further
    cycles (EX receives bubbles, fetch is frozen);
  * control transfers (taken branch, jal, jalr) are resolved in MEM: the three younger slots are squashed and
    fetch resumes at the target in the next cycle;
  * an ecall entering EX while an older instruction is in MEM or WB in that cycle is held in EX for two further
    cycles (MEM receives bubbles); an exiting ecall squashes everything younger and ends the run when it retires.

Input: the dynamic correct-path trace (from single-cycle execution / the ISA), one Entry per executed instruction.
Output: (retire_cycles list, total_cycles).  Pure Python over ints/bools, usable natively and symbolically
(hazard conditions may be symbolic; they are decided with `if`, i.e. by case split).
"""


class Entry:
    def __init__(self, reads, wr, redirect=False, ecall=False, exits=False):
        self.reads = reads          # list of source register numbers (ints or symbolic), None entries ignored
        self.wr = wr                # destination register number or None
        self.redirect = redirect    # taken branch / jal / jalr (bool or symbolic)
        self.ecall = ecall
        self.exits = exits          # exiting ecall


def depends(consumer, producer):
    """does `consumer` read the register `producer` writes (x0 never counts)?"""
    if producer is None or producer.wr is None:
        return False
    hit = False
    for r in consumer.reads:
        if r is not None:
            hit = hit | ((producer.wr == r) & (producer.wr != 0))
    return hit


def schedule(trace, interlock=True, max_cycles=400):
    n = len(trace)
    retire = [None] * n
    if n == 0:
        return retire, 0
    # latches hold trace indices (or None for a bubble / wrong-path slot)
    l_if = None      # fetched, waiting for ID
    l_id = None      # decoded, waiting for EX
    l_ex = None      # executed, waiting for MEM
    l_mem = None     # waiting for WB
    nxt = 0          # next trace index to fetch
    blocked = False  # a redirecting instruction is in flight: nothing on the correct path can be fetched
    hold = None      # None | ["ID", remaining] | ["EX", remaining]
    cycle = 0
    while cycle < max_cycles:
        cycle = cycle + 1
        in_wb, in_mem, in_ex, in_id = l_mem, l_ex, l_id, l_if     # what each stage works on in this cycle
        squash = False
        new_target_ready = False
        # ---- WB
        if in_wb is not None:
            retire[in_wb] = cycle
            if trace[in_wb].exits:
                return retire, cycle
        # ---- an active hold freezes the front of the pipeline
        if hold is not None:
            if hold[0] == "ID":
                # ID keeps its instruction, EX gets a bubble, MEM/WB drain
                l_mem = in_mem
                l_ex = None
                if in_mem is not None and trace[in_mem].redirect:
                    squash = True
            else:
                # EX keeps the ecall, MEM gets a bubble
                l_mem = None
                # l_ex, l_id, l_if unchanged
            hold[1] = hold[1] - 1
            if squash:
                l_if = None
                l_id = None
                l_ex = None
                hold = None
                blocked = False
            elif hold[1] == 0:
                hold = None
        else:
            start_hold = None
            # ---- MEM
            l_mem = in_mem
            if in_mem is not None and (trace[in_mem].redirect or trace[in_mem].exits):
                squash = True
            # ---- EX
            l_ex = in_ex
            if in_ex is not None and trace[in_ex].ecall and (in_mem is not None or in_wb is not None):
                start_hold = ["EX", 2]
            exit_in_ex = in_ex is not None and trace[in_ex].exits and start_hold is None
            # ---- ID
            l_id = in_id
            if interlock and in_id is not None and start_hold is None:
                hz = False
                if in_ex is not None:
                    hz = hz | depends(trace[in_id], trace[in_ex])
                if in_mem is not None:
                    hz = hz | depends(trace[in_id], trace[in_mem])
                if hz:
                    start_hold = ["ID", 2]
            # ---- IF
            if not blocked and nxt < n:
                l_if = nxt
                if trace[nxt].redirect:
                    blocked = True
                nxt = nxt + 1
            else:
                l_if = None
            hold = start_hold
            if exit_in_ex:
                # everything younger than an exiting ecall is squashed as soon as it has executed
                l_if = None
                l_id = None
                blocked = True
            if squash:
                l_if = None
                l_id = None
                l_ex = None
                hold = None
                if in_mem is not None and trace[in_mem].redirect:
                    blocked = False
        # ---- finished?  nothing in flight and nothing left to fetch
        if l_if is None and l_id is None and l_ex is None and l_mem is None and (nxt >= n or blocked and False):
            if nxt >= n:
                return retire, cycle
    return retire, None
