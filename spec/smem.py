"""S-MEM: the MemorySystem interface contract as an executable specification class.

Logical byte map L (dict address -> UInt8, absent = 0), valid addresses [lo, 2**32), addresses taken
modulo 2**32, little-endian, bytes written in ascending order up to (not including) the first invalid
address, which raises MemoryAddressError.  `word_contained` = True adds the cached systems' rule: an
access that crosses a word boundary raises ByteOffsetError before anything is read or written.

C18 proves that the flat Memory implements exactly this (word_contained = False); C03 proves it of the
cache systems (word_contained = True).  C01/C02 verify instruction execution *against this class*.
"""
from fixedint import UInt8, UInt16, UInt32
from architecture_simulator.uarch.memory.memory import MemoryAddressError
from architecture_simulator.util.integer_manipulation import ByteOffsetError

TOP = 2 ** 32


class SpecMemory:
    def __init__(self, L, lo, word_contained=False):
        self.L = L
        self.lo = lo
        self.word_contained = word_contained
        self.counted_accesses = 0        # ghost: number of accesses made with statistics enabled

    def _check(self, a):
        if a < self.lo:
            raise MemoryAddressError(address=a, min_address_incl=self.lo, max_address_incl=TOP - 1, memory_type="data memory")

    def _cross(self, address, n):
        if self.word_contained and (address % TOP) % 4 + n > 4:
            raise ByteOffsetError((address % TOP) % 4, 4 - n)

    def _read(self, address, n):
        self._cross(address, n)
        v = 0
        for i in range(n):
            a = (address + i) % TOP
            self._check(a)
            v = v + int(self.L.get(a, UInt8(0))) * 256 ** i
        return v

    def _write(self, address, n, value):
        self._cross(address, n)
        for i in range(n):
            a = (address + i) % TOP
            self._check(a)
            self.L[a] = UInt8((value // 256 ** i) % 256)

    def read_byte(self, address, update_statistics=True):
        v = self._read(address, 1)
        if update_statistics:
            self.counted_accesses += 1
        return UInt8(v)

    def read_halfword(self, address, update_statistics=True):
        v = self._read(address, 2)
        if update_statistics:
            self.counted_accesses += 1
        return UInt16(v)

    def read_word(self, address, update_statistics=True):
        v = self._read(address, 4)
        if update_statistics:
            self.counted_accesses += 1
        return UInt32(v)

    def write_byte(self, address, value, directly_write_to_lower_memory=False):
        self._write(address, 1, int(value))
        if not directly_write_to_lower_memory:
            self.counted_accesses += 1

    def write_halfword(self, address, value, directly_write_to_lower_memory=False):
        self._write(address, 2, int(value))
        if not directly_write_to_lower_memory:
            self.counted_accesses += 1

    def write_word(self, address, value, directly_write_to_lower_memory=False):
        self._write(address, 4, int(value))
        if not directly_write_to_lower_memory:
            self.counted_accesses += 1

    def reset(self):
        self.L = {}

    def get_address_range(self):
        return range(self.lo, TOP)

    def byte(self, a):
        return int(self.L.get(a, UInt8(0)))


class SpecWordMemory:
    """S-MEM (not word_contained) with the logical contents kept per 32-bit word (W: dict aligned word address ->
    UInt32, absent = 0): the data refinement W[w] = sum(L[w+k] * 256**k) of SpecMemory (lemma: contracts/lemma_wordmem).
    Used below the cache systems, whose block fills and write-backs are aligned word accesses: one map access per word
    instead of four.  An access that is not word-contained is carried out byte by byte in ascending order exactly as
    SpecMemory does."""

    def __init__(self, W, lo):
        assert lo % 4 == 0
        self.W = W
        self.lo = lo

    def _word(self, w):
        return int(self.W.get(w, UInt32(0)))

    def _check(self, a):
        if a < self.lo:
            raise MemoryAddressError(address=a, min_address_incl=self.lo, max_address_incl=TOP - 1, memory_type="data memory")

    def _read(self, address, n):
        from pyvc.api import split
        a = address % TOP
        lane = split(a % 4)
        if lane + n <= 4:
            self._check(a)
            return (self._word(a - lane) // 256 ** lane) % 256 ** n
        v = 0
        for i in range(n):
            ai = (address + i) % TOP
            self._check(ai)
            li = (lane + i) % 4
            v = v + ((self._word(ai - li) // 256 ** li) % 256) * 256 ** i
        return v

    def _put(self, w, lane, n, value):
        old = self._word(w)
        low = old % 256 ** lane
        high = old // 256 ** (lane + n)
        self.W[w] = UInt32(low + (value % 256 ** n) * 256 ** lane + high * 256 ** (lane + n))

    def _write(self, address, n, value):
        from pyvc.api import split
        a = address % TOP
        lane = split(a % 4)
        if lane + n <= 4:
            self._check(a)
            self._put(a - lane, lane, n, value)
            return
        for i in range(n):
            ai = (address + i) % TOP
            self._check(ai)
            li = (lane + i) % 4
            self._put(ai - li, li, 1, (value // 256 ** i) % 256)

    def read_byte(self, address, update_statistics=True):
        return UInt8(self._read(address, 1))

    def read_halfword(self, address, update_statistics=True):
        return UInt16(self._read(address, 2))

    def read_word(self, address, update_statistics=True):
        return UInt32(self._read(address, 4))

    def write_byte(self, address, value, directly_write_to_lower_memory=False):
        self._write(address, 1, int(value))

    def write_halfword(self, address, value, directly_write_to_lower_memory=False):
        self._write(address, 2, int(value))

    def write_word(self, address, value, directly_write_to_lower_memory=False):
        self._write(address, 4, int(value))

    def reset(self):
        self.W = {}

    def get_address_range(self):
        return range(self.lo, TOP)

    def byte(self, a):
        lane = a % 4
        return (self._word(a - lane) // 256 ** lane) % 256

    def word(self, w):
        return self._word(w)
