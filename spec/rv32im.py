"""S-ISA: RV32IM reference semantics, written from the RISC-V unprivileged specification (RV32I
chapter 2, "M" chapter 7) and the simulator's documented ecall table and memory map -- not from the
code under verification.  Pure integer arithmetic (Python ints), usable natively and symbolically.

step(mn, rd, rs1, rs2, imm, x, rd8, pc, lo) describes ONE instruction:
  mn            lower-case mnemonic
  rd, rs1, rs2  register numbers 0..31 (ignored where the format has none)
  imm           the immediate as written (any integer); the instruction uses its low bits, sign-extended
                as the format prescribes
  x(i)          value of register i before the step (function; x(0) must be 0)
  rd8(a)        byte at data address a (0 <= a < 2**32) before the step (function)
  pc            address of the instruction
  lo            first valid data address (addresses below it fault)
Returns Effect.
"""
from pyvc.api import ite

XLEN = 2 ** 32


class Effect:
    def __init__(self):
        self.rd = None           # register written (may be 0: then no visible effect) or None
        self.value = None        # value written, 0 <= value < 2**32
        self.stores = []         # list of (address, byte) in program order
        self.next_pc = None      # 0 <= next_pc < 2**32
        self.output = ""         # text appended to the console
        self.exit_code = None    # set by exiting ecalls
        self.fault = False       # the instruction faults (illegal data address / invalid ecall code): bool or symbolic
        self.taken_branch = False
        self.call = False        # JAL counts as a procedure call in the simulator's statistics


def sext(v, bits):
    """sign-extend the low `bits` bits of v"""
    v = v % 2 ** bits
    return ite(v >= 2 ** (bits - 1), v - 2 ** bits, v)


def s32(v):
    return sext(v, 32)


def u32(v):
    return v % XLEN


def tdiv(a, b):
    """quotient rounded toward zero, b != 0"""
    q = abs(a) // abs(b)
    return ite((a < 0) != (b < 0), 0 - q, q)


def nz(b):
    return ite(b == 0, 1, b)


R_ALU = ("add", "sub", "sll", "slt", "sltu", "xor", "srl", "sra", "or", "and",
         "mul", "mulh", "mulhsu", "mulhu", "div", "divu", "rem", "remu")
I_ALU = ("addi", "slti", "sltiu", "xori", "ori", "andi")
I_ALU_OP = {"addi": "add", "slti": "slt", "sltiu": "sltu", "xori": "xor", "ori": "or", "andi": "and"}
I_SHIFT = ("slli", "srli", "srai")
LOADS = ("lb", "lh", "lw", "lbu", "lhu")
STORES = ("sb", "sh", "sw")
BRANCHES = ("beq", "bne", "blt", "bge", "bltu", "bgeu")
ALL = R_ALU + I_ALU + I_SHIFT + LOADS + STORES + BRANCHES + ("lui", "auipc", "jal", "jalr", "ecall")


def alu(op, a, b):
    """a, b unsigned 32-bit operands -> unsigned 32-bit result. For shifts only b[4:0] is used."""
    if op == "add":
        return u32(a + b)
    if op == "sub":
        return u32(a - b)
    if op == "sll":
        return u32(a * 2 ** (b % 32))
    if op == "srl":
        return a // 2 ** (b % 32)
    if op == "sra":
        return u32(s32(a) // 2 ** (b % 32))
    if op == "slt":
        return ite(s32(a) < s32(b), 1, 0)
    if op == "sltu":
        return ite(a < b, 1, 0)
    if op == "xor":
        return a ^ b
    if op == "or":
        return a | b
    if op == "and":
        return a & b
    if op == "mul":
        return u32(a * b)
    if op == "mulh":
        return u32((s32(a) * s32(b)) // XLEN)
    if op == "mulhsu":
        return u32((s32(a) * b) // XLEN)
    if op == "mulhu":
        return (a * b) // XLEN
    if op == "div":
        # x/0 = -1; overflow -2^31 / -1 = -2^31 (falls out of the 32-bit wrap); round toward zero
        return ite(b == 0, XLEN - 1, u32(tdiv(s32(a), nz(s32(b)))))
    if op == "divu":
        return ite(b == 0, XLEN - 1, a // nz(b))
    if op == "rem":
        # x%0 = x; sign of the dividend; overflow case gives 0
        sa = s32(a)
        sb = nz(s32(b))
        return ite(b == 0, a, u32(sa - tdiv(sa, sb) * sb))
    if op == "remu":
        return ite(b == 0, a, a % nz(b))
    raise ValueError(op)


def load_value(rd8, a, nbytes):
    v = 0
    for i in range(nbytes):
        v = v + rd8(u32(a + i)) * 256 ** i
    return v


def touches_invalid(a, nbytes, lo):
    bad = False
    for i in range(nbytes):
        bad = bad | (u32(a + i) < lo)
    return bad


def step(mn, rd, rs1, rs2, imm, x, rd8, pc, lo):
    e = Effect()
    e.next_pc = u32(pc + 4)
    if mn in R_ALU:
        e.rd = rd
        e.value = alu(mn, x(rs1), x(rs2))
    elif mn in I_ALU:
        e.rd = rd
        e.value = alu(I_ALU_OP[mn], x(rs1), u32(sext(imm, 12)))
    elif mn in I_SHIFT:
        e.rd = rd
        e.value = alu(mn[:-1], x(rs1), imm % 32)
    elif mn in LOADS:
        n = {"b": 1, "h": 2, "w": 4}[mn[1]]
        a = u32(x(rs1) + sext(imm, 12))
        e.fault = touches_invalid(a, n, lo)
        v = load_value(rd8, a, n)
        if mn in ("lb", "lh"):
            v = u32(sext(v, 8 * n))
        e.rd = rd
        e.value = v
    elif mn in STORES:
        n = {"b": 1, "h": 2, "w": 4}[mn[1]]
        a = u32(x(rs1) + sext(imm, 12))
        e.fault = touches_invalid(a, n, lo)
        v = x(rs2)
        e.stores = [(u32(a + i), (v // 256 ** i) % 256) for i in range(n)]
    elif mn in BRANCHES:
        a = x(rs1)
        b = x(rs2)
        if mn == "beq":
            t = a == b
        elif mn == "bne":
            t = a != b
        elif mn == "blt":
            t = s32(a) < s32(b)
        elif mn == "bge":
            t = s32(a) >= s32(b)
        elif mn == "bltu":
            t = a < b
        else:
            t = a >= b
        e.taken_branch = t
        e.next_pc = ite(t, u32(pc + sext(imm, 13)), u32(pc + 4))
    elif mn == "lui":
        e.rd = rd
        e.value = u32(sext(imm, 20) * 4096)
    elif mn == "auipc":
        e.rd = rd
        e.value = u32(pc + sext(imm, 20) * 4096)
    elif mn == "jal":
        e.rd = rd
        e.value = u32(pc + 4)
        e.next_pc = u32(pc + sext(imm, 21))
        e.call = True
    elif mn == "jalr":
        e.rd = rd
        e.value = u32(pc + 4)
        t = u32(x(rs1) + sext(imm, 12))
        e.next_pc = t - t % 2          # bit 0 cleared
    else:
        raise ValueError(mn)
    return e


# ----------------------------------------------------------------------------- ecall (help page table)
ECALL_PRINT = (1, 2, 4, 11, 34, 35, 36)
ECALL_EXIT = (10, 93)


def ecall_is_valid(code):
    ok = False
    for c in ECALL_PRINT + ECALL_EXIT:
        ok = ok | (code == c)
    return ok


# ------------------------------------------------------------------------------------ print-string ecall (a7 = 4)
# The reference is itself a loop: starting at a0 with nothing printed, one character per iteration.  The real loop in
# ECALL.process_ecall is proved to run in lock step with it (same decision, same next address modulo 2**32, same text
# so far) from every loop state, hence for strings of every length.
def print_string_init(a0):
    return a0, ""


def print_string_step(address, printed, byte_at, lo):
    """one iteration of the reference loop -> (kind, next address, text so far) with kind in fault | done | more"""
    a = address % 2 ** 32
    if a < lo:
        return "fault", address, printed
    b = byte_at(a)
    if b == 0:
        return "done", address, printed
    return "more", address + 1, printed + chr(b)
