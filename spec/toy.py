"""S-TOY: reference accumulator machine, written from the help page (ToyHelp.vue), not from the code.

State: mem (function address -> 16-bit word), accu (16 bit), f (address of the instruction being
executed, 12 bit).  One step executes the word at f.  Word layout: opcode = bits 15..12,
address = bits 11..0.  Opcodes 0..12 = STO LDA BRZ ADD SUB OR AND XOR NOT INC DEC ZRO NOP; 13..15 act as NOP.
"""

W = 2 ** 16
A = 2 ** 12


def opcode(word):
    return (word // 4096) % 16


def addr(word):
    return word % 4096


def step_accu(word, accu, m_at_addr):
    """new accumulator after executing word; m_at_addr = MEM[addr(word)] before the step"""
    op = opcode(word)
    if op == 1:
        return m_at_addr
    if op == 3:
        return (accu + m_at_addr) % W
    if op == 4:
        return (accu - m_at_addr) % W
    if op == 5:
        return accu | m_at_addr
    if op == 6:
        return accu & m_at_addr
    if op == 7:
        return accu ^ m_at_addr
    if op == 8:
        return (W - 1) - accu
    if op == 9:
        return (accu + 1) % W
    if op == 10:
        return (accu - 1) % W
    if op == 11:
        return 0
    return accu


def writes_mem(word):
    return opcode(word) == 0


def branch_taken(word, accu):
    return (opcode(word) == 2) & (accu == 0)


def next_fetch(word, accu, f):
    if branch_taken(word, accu):
        return addr(word)
    return (f + 1) % A


MNEMONICS = ["STO", "LDA", "BRZ", "ADD", "SUB", "OR", "AND", "XOR", "NOT", "INC", "DEC", "ZRO", "NOP", "NOP", "NOP", "NOP"]
