"""Program generation and instrumented runs shared by the bounded run-time contracts (C02, C07, C08, C09, C13, C16).
Programs are lists of real instruction objects (no assembler involved)."""
import random
import copy
from fixedint import UInt32
from architecture_simulator.uarch.riscv.riscv_architectural_state import RiscvArchitecturalState
from architecture_simulator.simulation.riscv_simulation import RiscvSimulation
from architecture_simulator.simulation.runtime_errors import InstructionExecutionException
from architecture_simulator.isa.riscv import rv32i_instructions as I
from architecture_simulator.isa.riscv.instruction_types import (
    RTypeInstruction, ITypeInstruction, STypeInstruction, BTypeInstruction, UTypeInstruction, JTypeInstruction, EmptyInstruction)
from architecture_simulator.uarch.memory.cache import CacheOptions
from spec.sched import Entry

DATA = 2 ** 14
REGS = [0, 1, 2, 3]


def templates(n_prog):
    """instruction factories; each returns a fresh object. n_prog = program length (for branch targets)."""
    T = []
    for rd in REGS:
        for rs1 in REGS:
            for rs2 in (0, 1, 2):
                T.append(lambda rd=rd, rs1=rs1, rs2=rs2: I.ADD(rd, rs1, rs2))
            T.append(lambda rd=rd, rs1=rs1: I.ADDI(rd, rs1, 1))
            T.append(lambda rd=rd, rs1=rs1: I.LW(rd, 3, 4 * rs1))
    for rs2 in REGS:
        T.append(lambda rs2=rs2: I.SW(3, rs2, 4))
        T.append(lambda rs2=rs2: I.SB(3, rs2, 1))
    # accesses spread over many blocks and sets (cache behaviour): word offsets 0..252 from the data pointer
    for k in (16, 20, 32, 36, 64, 68, 96, 128, 132, 160, 192, 224, 252):
        T.append(lambda k=k: I.LW(1, 3, k))
        T.append(lambda k=k: I.LW(2, 3, k))
        T.append(lambda k=k: I.SW(3, 2, k))
    # effective addresses that are negative / beyond 2**32 before wrapping (the top of the address space is valid data memory)
    T.append(lambda: I.SW(0, 1, -4))
    T.append(lambda: I.LW(2, 0, -4))
    T.append(lambda: I.SB(2, 1, -9))
    T.append(lambda: I.LBU(1, 2, -9))
    T.append(lambda: I.SH(1, 2, -2048))
    # sub-word stores of register values with the sign bit of the stored part set (x1 / x2 hold such values in many of the
    # initial register files), at both halves / all lanes of a word, next to words the programs also load and store
    for (rs2, off) in ((1, 0), (2, 4), (1, 6), (2, 18), (1, 32), (2, 66)):
        T.append(lambda rs2=rs2, off=off: I.SH(3, rs2, off))
    for (rs2, off) in ((1, 5), (2, 7), (1, 16), (2, 35)):
        T.append(lambda rs2=rs2, off=off: I.SB(3, rs2, off))
    T.append(lambda: I.LH(1, 3, 66))
    T.append(lambda: I.SH(3, 1, 34))
    for rs1 in (0, 1, 2):
        for off in (-4, 8, 12):
            T.append(lambda rs1=rs1, off=off: I.BEQ(rs1, 0, off))
            T.append(lambda rs1=rs1, off=off: I.BNE(rs1, 2, off))
    T.append(lambda: I.JAL(1, 8, 0))
    T.append(lambda: I.JAL(0, 12, 0))
    T.append(lambda: I.JALR(1, 2, 0))
    T.append(lambda: I.MUL(1, 1, 2))
    T.append(lambda: I.LUI(2, 4))
    T.append(lambda: I.ECALL())
    T.append(lambda: I.LW(1, 0, 0))            # faulting load (address 0 is below the data range)
    T.append(lambda: I.ADDI(0, 0, 0))          # nop
    T.append(lambda: I.LB(2, 3, 1))
    T.append(lambda: I.LHU(1, 3, 2))
    return T


def random_program(rnd, length):
    T = templates(length)
    return [rnd.choice(T)() for _ in range(length)]


def initial_regs(rnd):
    a7 = rnd.choice([1, 36, 11, 10, 93, 99, 34])
    x = [0] * 32
    x[1] = rnd.choice([0, 1, 5, 2 ** 32 - 1, 8, 12])
    x[2] = rnd.choice([0, 4, 8, 12, 16, 2 ** 32 - 4, 2])
    x[3] = DATA + 16
    x[10] = rnd.choice([0, 65, 2 ** 31, 7])
    x[17] = a7
    return x


def make_sim(prog, regs, mode, detect=True, dcache=None, icache=None):
    kw = {}
    if dcache is not None:
        kw["data_cache_options"] = dcache
    if icache is not None:
        kw["instruction_cache_options"] = icache
    st = RiscvArchitecturalState(pipeline_mode=mode, detect_data_hazards=detect, **kw)
    for i, v in enumerate(regs):
        st.register_file.registers[i] = UInt32(v)
    st.instruction_memory.write_instructions([copy.copy(p) for p in prog])
    for i in range(8):
        st.memory.write_word(DATA + 16 + 4 * i, UInt32((i * 0x01010101 + 0x80) % 2 ** 32), True)
    return RiscvSimulation(state=st)


def arch(sim):
    st = sim.state
    pm = st.performance_metrics
    return {
        "regs": [int(r) for r in st.register_file.registers],
        "mem": dict((k, v[1]) for k, v in st.memory.wordwise_repr().items()) if not hasattr(st.memory, "cache") else None,
        "output": st.output,
        "exit": st.exit_code,
        "icount": pm.instruction_count,
        "bcount": pm.branch_count,
        "pcount": pm.procedure_count,
    }


def logical_memory(sim, addrs):
    out = {}
    for a in addrs:
        try:
            out[a] = int(sim.state.memory.read_word(a, False))
        except Exception as e:
            out[a] = type(e).__name__
    return out


def entry_for(ins, taken):
    if isinstance(ins, I.ECALL):
        return Entry([], None, False, True, False)
    if isinstance(ins, RTypeInstruction) or isinstance(ins, (STypeInstruction, BTypeInstruction)):
        reads = [ins.rs1, ins.rs2]
    elif isinstance(ins, ITypeInstruction):
        reads = [ins.rs1]
    else:
        reads = []
    wr = ins.rd if isinstance(ins, (RTypeInstruction, ITypeInstruction, UTypeInstruction, JTypeInstruction)) else None
    redirect = taken or isinstance(ins, (I.JAL, I.JALR))
    return Entry(reads, wr, redirect, False, False)


def single_cycle_trace(sim, max_steps=200):
    """run the single-cycle simulation; returns (trace entries, addresses, fault or None, steps)"""
    st = sim.state
    trace, addrs = [], []
    fault = None
    n = 0
    while not sim.is_done() and n < max_steps:
        n += 1
        pc = st.program_counter
        ins = st.instruction_memory.read_instruction(pc) if not hasattr(st.instruction_memory, "cache") else st.instruction_memory.instruction_memory.read_instruction(pc)
        b0 = st.performance_metrics.branch_count
        try:
            sim.step()
        except InstructionExecutionException as e:
            fault = e
            break
        e = entry_for(ins, st.performance_metrics.branch_count != b0)
        if isinstance(ins, I.ECALL) and st.exit_code is not None:
            e.exits = True
        trace.append(e)
        addrs.append(pc)
    return trace, addrs, fault, n


def five_stage_run(sim, max_steps=1500):
    """run the five-stage simulation recording (address, cycle) of every retirement; returns (retired, fault, cycles)"""
    st = sim.state
    retired = []
    fault = None
    n = 0
    while not sim.is_done() and n < max_steps:
        n += 1
        try:
            sim.step()
        except InstructionExecutionException as e:
            fault = e
            break
        pr = st.pipeline.pipeline_registers[4]
        if not isinstance(pr.instruction, EmptyInstruction):
            retired.append((pr.address_of_instruction, st.performance_metrics.cycles))
    return retired, fault, st.performance_metrics.cycles
