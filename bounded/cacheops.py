"""BOUNDED history cross-check of the data-cache systems at the MemorySystem interface (C03, C09, C12; beside the
per-operation proofs of contracts/cache.py, never counted as proved): random histories of reads and writes of all
widths on the real WriteBack / WriteThrough systems over small random geometries, at addresses chosen to conflict in
one set (same index, different tags), to hit neighbouring lanes and words of resident blocks, and to alias modulo 2**32.
After EVERY operation: the value read and the logical contents equal a reference byte map (C03), hit/miss, counters,
last-hit flag and penalty cycles equal a reference tag-only cache (C09), and the backing store relates to the logical
contents as C12 states.  This is what notices history kept in fields of the cache the contracts do not know."""
import random
from bounded.cacheprog import RefCache, logical_view, nz

LO = 2 ** 14
W = {"byte": 1, "halfword": 2, "word": 4}


def build(cfg):
    from architecture_simulator.uarch.memory.memory import Memory, AddressingType
    from architecture_simulator.uarch.memory.write_back_memory_system import WriteBackMemorySystem
    from architecture_simulator.uarch.memory.write_through_memory_system import WriteThroughMemorySystem
    from architecture_simulator.uarch.riscv.riscv_performance_metrics import RiscvPerformanceMetrics
    ib, bb, assoc, kind, pol, pen = cfg
    cls = WriteBackMemorySystem if kind == "wb" else WriteThroughMemorySystem
    pm = RiscvPerformanceMetrics()
    ms = cls(memory=Memory(AddressingType.BYTE, 32, True, range(LO, 2 ** 32)), num_index_bits=ib, num_block_bits=bb, associativity=assoc,
             performance_metrics=pm, miss_penality=pen, replacement_strategy=pol)
    return ms, pm


def one_history(cfg, rnd, length, focus):
    from fixedint import UInt8, UInt16, UInt32
    from architecture_simulator.uarch.memory.memory import MemoryAddressError
    from architecture_simulator.util.integer_manipulation import ByteOffsetError
    FT = {"byte": UInt8, "halfword": UInt16, "word": UInt32}
    ib, bb, assoc, kind, pol, pen = cfg
    ms, pm = build(cfg)
    ref = RefCache(ib, bb, assoc, pol)
    mem = {}
    stride = 4 * 2 ** bb * 2 ** ib            # addresses `stride` apart fall into the same set with different tags
    base = LO + 4 * 2 ** bb * rnd.randrange(2 ** ib) + stride * rnd.randrange(3)
    blocks = [base + t * stride for t in range(assoc + 2)] + [base + 4 * 2 ** bb, 2 ** 32 - stride + (base % stride)]
    blocks = [b for b in blocks if LO <= b < 2 ** 32]
    for b in blocks[:3]:
        v = rnd.getrandbits(32)
        ms.write_word(b, UInt32(v), True)          # preload (as the assembler does), before any access
        for k in range(4):
            mem[b + k] = (v >> (8 * k)) & 255
    hist = []
    cycles = 0
    for step in range(length):
        wname = rnd.choice(list(W))
        n = W[wname]
        b = rnd.choice(blocks)
        a = b + rnd.choice([0, 0, 1, 2, 3, 4 * rnd.randrange(2 ** bb) + rnd.choice([0, 0, 1, 2])])
        a = a % 2 ** 32
        alias = a + rnd.choice([0, 0, 0, 2 ** 32, -2 ** 32])
        write = rnd.random() < 0.5
        counted = write or rnd.random() < 0.8
        rejected = (a % 4) + n > 4 or a < LO
        if rejected and rnd.random() < 0.7:
            continue                                  # keep most histories going; a rejected access ends one
        before = nz(logical_view(ms))
        try:
            if write:
                v = rnd.getrandbits(8 * n)
                hist.append(("write_" + wname, alias, v))
                getattr(ms, "write_" + wname)(alias, FT[wname](v))
                got = None
            else:
                hist.append(("read_" + wname, alias, counted))
                got = getattr(ms, "read_" + wname)(alias, counted)
            raised = None
        except (ByteOffsetError, MemoryAddressError) as e:
            raised = e
        if raised is not None or rejected:
            if raised is None:
                return "C03", "%s(%d) must be rejected (crosses a word boundary or leaves the valid range) but was carried out" % (hist[-1][0], alias), hist
            if not rejected:
                return "C03", "%s(%d) was rejected with %s although it is word-contained and in range" % (hist[-1][0], alias, type(raised).__name__), hist
            if nz(logical_view(ms)) != before:
                return "C03", "rejected %s(%d) changed stored values" % (hist[-1][0], alias), hist
            return None, None, hist
        if write:
            for k in range(n):
                mem[a + k] = (v >> (8 * k)) & 255
        else:
            want = sum(mem.get(a + k, 0) << (8 * k) for k in range(n))
            if int(got) != want or type(got) is not FT[wname]:
                return "C03", "after %d operations: %s(%d) = %r, flat memory holds %d" % (len(hist), hist[-1][0], alias, got, want), hist
        lv = nz(logical_view(ms))
        if lv != nz(mem):
            x = sorted(set(lv) ^ set(nz(mem)) | {k for k in lv if nz(mem).get(k) != lv[k]})[0]
            # (C12 states the same of the write policies: no written value is lost on the way to / from the backing store)
            return ("C12" if focus == "C12" else "C03"), "after %d operations (%s at %d): logical byte %d is %d, the values written so far make it %d" % (len(hist), hist[-1][0], alias, x, lv.get(x, 0), mem.get(x, 0)), hist
        hit = ref.access(a, allocate=(kind == "wb" or not write), counted=counted)
        if counted and not hit:
            cycles += pen
        if (ms.hits, ms.accesses) != (ref.hits, ref.accesses) or (counted and ms.last_was_hit != hit) or pm.cycles != cycles:
            return "C09", "after %d operations (%s at %d): (hits, accesses, last hit, penalty cycles) = (%d, %d, %s, %d), reference cache (%d, %d, %s, %d)" % (
                len(hist), hist[-1][0], alias, ms.hits, ms.accesses, ms.last_was_hit, pm.cycles, ref.hits, ref.accesses, hit, cycles), hist
        back = nz({x: int(vv) for x, vv in ms.memory.memory_file.items()})
        if kind == "wt" and back != lv:
            return "C12", "write-through: backing store differs from the logical contents after %d operations" % len(hist), hist
        if kind == "wb":
            off = [x for x in set(lv) | set(back) if lv.get(x, 0) != back.get(x, 0) and not ref.resident(x)]
            if off:
                return "C12", "write-back: backing store differs from the logical contents at non-resident address %d after %d operations" % (off[0], len(hist)), hist
    return None, None, hist


def run(tier, seed, focus):
    rnd = random.Random(seed + 900 + sum(map(ord, focus)))
    evals, viol, kinds = 0, [], set()
    for it in range(3000 if tier == "quick" else 80000):
        pol = rnd.choice(["lru", "plru"])
        assoc = rnd.choice([1, 2, 4]) if pol == "plru" else rnd.choice([1, 2, 3, 4])
        cfg = (rnd.randint(0, 2), rnd.randint(0, 2), assoc, rnd.choice(["wb", "wt"]), pol, rnd.choice([0, 1, 5]))
        s2 = rnd.getrandbits(32)
        prop, bad, hist = one_history(cfg, random.Random(s2), 40, focus)
        evals += len(hist)
        kinds.add(cfg[:5])
        # (C10 at the level of a cache set: hit/miss disagreeing with the reference LRU / tree-PLRU cache means a victim or a
        #  recency update went wrong -- the accounting mismatch IS the wrong replacement decision)
        if bad and (prop == focus or (focus == "C10" and prop == "C09")) and len(viol) < 5:
            viol.append({"key": "%s:ops:%s" % (focus, bad[:70]), "what": bad, "config": list(cfg), "seed2": s2, "history": [list(h) for h in hist], "sub": "cacheops"})
    return evals, len(kinds), viol


def replay(j):
    prop, bad, hist = one_history(tuple(j["config"]), random.Random(j["seed2"]), 40, None)
    print("config (index bits, block bits, ways, kind, policy, penalty):", j["config"])
    print("history:", hist[-6:])
    print("now:", bad or "cache and references agree")
    print("recorded:", j.get("what"))
    return bad is None          # True = the contract holds now
