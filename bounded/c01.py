"""BOUNDED program-level cross-check for C01 (beside the per-instruction proofs of contracts/c01_single.py, never counted
as proved): generated programs over all 45 mnemonics + ecalls run on the real single-cycle simulation and are compared
after EVERY step with an interpreter built on the reference semantics spec/rv32im.py: all 32 registers, pc, every data
byte written so far, console output, exit code, instruction / branch / procedure counters, done-ness, and the fault
report.  The proofs quantify over the states the harness can build from the fields it knows; this is what notices
history kept in state of its own (memoised decode, cached operands, ...) and wrong composition of steps."""
import copy
import random
from struct import unpack
from fixedint import UInt32
from spec import rv32im as S

DATA = 2 ** 14
STEP_BOUND = 120
# offsets from the data pointer: a few neighbouring bytes, so that loads and stores of different widths and alignments
# overlap each other again and again within one run
OFFS = [0, 0, 0, 1, 2, 3, 4, 4, 5, 6, 7, 8, -4, -1, 12]


def gen(rnd):
    from architecture_simulator.isa.riscv import rv32i_instructions as I
    n = rnd.randint(1, 14)
    regs = [0, 1, 2, 3, 4, 5, 10, 17]

    def r():
        return rnd.choice(regs)

    def wr():
        return rnd.choice([1, 2, 4, 5, 10, 17, 0, 1, 2])        # x3 is kept as the data pointer most of the time
    prog = []
    dense = rnd.random() < 0.5          # memory-dense programs: mostly loads and stores around the data pointer
    for i in range(n):
        k = rnd.random()
        if dense and k < 0.8:
            k = 0.52 + 0.24 * rnd.random()
        if k < 0.30:
            mn = rnd.choice(S.R_ALU)
            prog.append(getattr(I, mn.upper())(wr(), r(), r()))
        elif k < 0.45:
            mn = rnd.choice(S.I_ALU)
            prog.append(getattr(I, mn.upper())(wr(), r(), rnd.choice([0, 1, -1, 2047, -2048, 5, rnd.randint(-2048, 2047)])))
        elif k < 0.52:
            mn = rnd.choice(S.I_SHIFT)
            prog.append(getattr(I, mn.upper())(wr(), r(), rnd.choice([0, 1, 31, rnd.randint(0, 31)])))
        elif k < 0.64:
            mn = rnd.choice(S.LOADS)
            prog.append(getattr(I, mn.upper())(wr(), rnd.choice([3, 3, 3, 3, 3, r()]), rnd.choice(OFFS + [rnd.randint(-16, 40)])))
        elif k < 0.76:
            mn = rnd.choice(S.STORES)
            prog.append(getattr(I, mn.upper())(rnd.choice([3, 3, 3, 3, 3, r()]), r(), rnd.choice(OFFS + [rnd.randint(-16, 40)])))
        elif k < 0.86:
            mn = rnd.choice(S.BRANCHES)
            prog.append(getattr(I, mn.upper())(r(), r(), rnd.choice([8, 12, -4, -8, 4, 16, 4 * (n - i)])))
        elif k < 0.89:
            prog.append(I.LUI(wr(), rnd.choice([0, 1, 4, 2 ** 19, 2 ** 20 - 1, rnd.randint(0, 2 ** 20 - 1)])))
        elif k < 0.92:
            prog.append(I.AUIPC(wr(), rnd.choice([0, 1, 2 ** 19, 2 ** 20 - 1])))
        elif k < 0.95:
            prog.append(I.JAL(rnd.choice([0, 1, 5]), rnd.choice([8, 12, -8, 4 * (n - i)]), 0))
        elif k < 0.97:
            prog.append(I.JALR(rnd.choice([0, 1, 5]), r(), rnd.choice([0, 1, 4, 7, -4])))
        else:
            prog.append(I.ECALL())
    x = [0] * 32
    x[1] = rnd.choice([0, 1, 5, 2 ** 32 - 1, 8, 2 ** 31, 2 ** 31 - 1])
    x[2] = rnd.choice([0, 4, 8, 12, 16, 2 ** 32 - 4, 2, 31, 33])
    x[3] = DATA + 16
    x[4] = rnd.choice([DATA, DATA + 1, 2 ** 32 - 2, 3, 2 ** 31 + 5])
    x[5] = rnd.choice([0, 7, 2 ** 32 - 7, 0x80000000, 0x12345678])
    x[10] = rnd.choice([0, 65, 2 ** 31, 7, 2 ** 32 - 1, 0x40490FDB])
    x[17] = rnd.choice([1, 36, 11, 10, 93, 34, 35, 2, 99, 0])
    return prog, x


def ecall_effect(e, a7, a0):
    """-> False if the code is invalid"""
    if a7 == 1:
        e.output = str(S.s32(a0))
    elif a7 == 36:
        e.output = str(a0)
    elif a7 == 11:
        e.output = chr(a0 % 128)
    elif a7 == 34:
        e.output = "0x" + format(a0, "X")
    elif a7 == 35:
        e.output = bin(a0)
    elif a7 == 2:
        e.output = str(unpack(">f", a0.to_bytes(4, "big"))[0])
    elif a7 == 10:
        e.exit_code = 0
    elif a7 == 93:
        e.exit_code = a0
    else:
        return False
    return True


def compare(prog, regs):
    """-> (first disagreement or None, features of the run)"""
    from architecture_simulator.uarch.riscv.riscv_architectural_state import RiscvArchitecturalState
    from architecture_simulator.simulation.riscv_simulation import RiscvSimulation
    from architecture_simulator.simulation.runtime_errors import InstructionExecutionException
    st = RiscvArchitecturalState(pipeline_mode="single_stage_pipeline")
    for i, v in enumerate(regs):
        st.register_file.registers[i] = UInt32(v)
    st.instruction_memory.write_instructions([copy.copy(p) for p in prog])
    mem = {}
    for i in range(8):
        w = (i * 0x01010101 + 0x80F0) % 2 ** 32
        st.memory.write_word(DATA + 16 + 4 * i, UInt32(w), True)
        for k in range(4):
            mem[DATA + 16 + 4 * i + k] = (w >> (8 * k)) & 255
    sim = RiscvSimulation(state=st)
    x = list(regs)
    pc, out, exit_code = 0, "", None
    icount = bcount = pcount = 0
    feats = set()
    for step in range(STEP_BOUND):
        done = exit_code is not None or not (0 <= pc < 4 * len(prog) and pc % 4 == 0)
        if sim.is_done() != done:
            return "after %d steps: simulator done=%s, reference done=%s (pc %d, exit code %s)" % (step, sim.is_done(), done, pc, exit_code), feats
        if done:
            break
        ins = prog[pc // 4]
        mn = ins.mnemonic
        fault = False
        if mn == "ecall":
            e = S.Effect()
            e.next_pc = S.u32(pc + 4)
            if x[17] == 4:
                return None, feats            # string output: covered by its own unit, not generated here
            fault = not ecall_effect(e, x[17], x[10])
            feats.add("ecall")
        else:
            e = S.step(mn, getattr(ins, "rd", None), getattr(ins, "rs1", None), getattr(ins, "rs2", None), getattr(ins, "imm", 0),
                       lambda i: x[i], lambda a: mem.get(a, 0), pc, DATA)
            fault = bool(e.fault)
        try:
            sim.step()
            raised = None
        except InstructionExecutionException as ex:
            raised = ex
        if fault or raised is not None:
            feats.add("fault")
            if not fault or raised is None:
                return "step %d (%r at %d): simulator %s, reference %s" % (step + 1, ins, pc, "faults" if raised else "does not fault", "faults" if fault else "does not fault"), feats
            if raised.address != pc:
                return "step %d: fault reported at address %s, faulting instruction is at %d" % (step + 1, raised.address, pc), feats
            # precise state: nothing of the faulting instruction is visible
            got = [int(v) for v in st.register_file.registers]
            if got != x:
                return "step %d: registers changed by a faulting instruction" % (step + 1), feats
            break
        if e.rd is not None and e.rd != 0:
            x[e.rd] = e.value
        for (a, b) in e.stores:
            mem[a] = b
            feats.add("store")
        if e.taken_branch:
            bcount += 1
            feats.add("taken")
        if e.call:
            pcount += 1
        pc = e.next_pc
        out += e.output
        if e.exit_code is not None:
            exit_code = e.exit_code
        icount += 1
        got = [int(v) for v in st.register_file.registers]
        if got != x:
            j = [i for i in range(32) if got[i] != x[i]][0]
            return "after step %d (%r): x%d = %d, reference %d" % (step + 1, ins, j, got[j], x[j]), feats
        if st.program_counter != pc:
            return "after step %d (%r): pc = %d, reference %d" % (step + 1, ins, st.program_counter, pc), feats
        mf = st.memory.memory_file
        for a in set(mem) | set(mf):
            if int(mf.get(a, 0)) != mem.get(a, 0):
                return "after step %d (%r): byte %d = %d, reference %d" % (step + 1, ins, a, int(mf.get(a, 0)), mem.get(a, 0)), feats
        if st.output != out or st.exit_code != exit_code:
            return "after step %d (%r): output %r exit %r, reference %r / %r" % (step + 1, ins, st.output, st.exit_code, out, exit_code), feats
        pm = st.performance_metrics
        if (pm.instruction_count, pm.branch_count, pm.procedure_count) != (icount, bcount, pcount):
            return "after step %d (%r): counters %r, reference %r" % (step + 1, ins, (pm.instruction_count, pm.branch_count, pm.procedure_count), (icount, bcount, pcount)), feats
        if pm.cycles != icount:
            return "after step %d: %d cycles for %d instructions in single-cycle mode" % (step + 1, pm.cycles, icount), feats
    return None, feats


def describe(prog, regs):
    return "; ".join(repr(p) for p in prog) + "   [x1=%d x2=%d x3=%d x4=%d x5=%d x10=%d x17=%d]" % tuple(regs[i] for i in (1, 2, 3, 4, 5, 10, 17))


def run(tier, seed):
    rnd = random.Random(seed + 1)
    evals, viol, samples = 0, [], []
    shapes = set()
    for _ in range(15000 if tier == "quick" else 400000):
        prog, regs = gen(rnd)
        evals += 1
        bad, feats = compare(prog, regs)
        if len(feats) >= 2:
            shapes.add((tuple(p.mnemonic for p in prog), tuple(sorted(feats))))
        if bad and len(viol) < 5:
            viol.append({"key": "C01:" + bad[:70], "what": bad, "program": describe(prog, regs), "seed": seed, "index": evals})
        elif not bad and len(feats) >= 3 and len(samples) < 2:
            samples.append({"program": describe(prog, regs)})
    return {"evaluations": evals, "distinct_nontrivial": len(shapes), "violations": viol, "samples": samples,
            "rule": "seeded random programs of 1..14 instructions over all 45 mnemonics and ecall codes 1,2,10,11,34,35,36,93 + invalid ones, boundary register contents, loads/stores around a data pointer incl. unaligned, wrapping and out-of-range addresses, forward/backward branches and jumps; non-trivial = run with at least two of {store, taken transfer, ecall, fault}; distinct by mnemonic sequence and features",
            "bound": "<= 14 instructions, <= %d steps" % STEP_BOUND,
            "contract": "after every step: registers, pc, every data byte, output, exit code, instruction/branch/procedure counters, cycles, done-ness equal the RV32IM reference interpreter; a fault is raised exactly when the reference faults, names the faulting instruction's address and leaves the registers untouched"}


def replay(j):
    rnd = random.Random(j["seed"] + 1)
    for _ in range(j["index"]):
        prog, regs = gen(rnd)
    bad, _ = compare(prog, regs)
    print("program:", describe(prog, regs))
    print("now:", bad or "simulator and reference agree")
    print("recorded:", j.get("what"))
    return bad is None          # True = the contract holds now
