"""Grammar-derived RISC-V assembler programs: an AST, its denotation (computed here from the documented syntax,
independently of the parser) and randomised renderings.  Shared by the BOUNDED run-time contracts of C04, C05,
C13, C14, C15.  Nothing here is counted as proved."""
import random
from architecture_simulator.settings.settings import Settings

# the RISC-V ABI register names, written down here (not read from the repository's settings: the oracle must not
# follow a changed table)
ABI = {"zero": 0, "ra": 1, "sp": 2, "gp": 3, "tp": 4, "t0": 5, "t1": 6, "t2": 7, "s0": 8, "fp": 8, "s1": 9,
       "a0": 10, "a1": 11, "a2": 12, "a3": 13, "a4": 14, "a5": 15, "a6": 16, "a7": 17,
       "s2": 18, "s3": 19, "s4": 20, "s5": 21, "s6": 22, "s7": 23, "s8": 24, "s9": 25, "s10": 26, "s11": 27,
       "t3": 28, "t4": 29, "t5": 30, "t6": 31}
ABI_BY_NUM = {}
for k, v in ABI.items():
    ABI_BY_NUM.setdefault(v, []).append(k)
DATA0 = Settings().get()["memory_address_min_bytes"]

R_TYPE = ["add", "sub", "sll", "slt", "sltu", "xor", "srl", "sra", "or", "and", "mul", "mulh", "mulhu", "mulhsu", "div", "divu", "rem", "remu"]
I_TYPE = ["addi", "slti", "sltiu", "xori", "ori", "andi"]
SHIFT = ["slli", "srli", "srai"]
LOAD = ["lb", "lh", "lw", "lbu", "lhu"]
STORE = ["sb", "sh", "sw"]
BRANCH = ["beq", "bne", "blt", "bge", "bltu", "bgeu"]
U_TYPE = ["lui", "auipc"]


def sext(v, bits):
    v %= 1 << bits
    return v - (1 << bits) if v >= 1 << (bits - 1) else v


# ----------------------------------------------------------------------------------------- AST
class Item:
    def __init__(self, kind, **kw):
        self.kind = kind          # instr | nop | mv | li | la | ldv | stv | ecall | label
        self.label = None         # in-line label
        self.__dict__.update(kw)


class Data:
    def __init__(self, kind, name, values=None, string=None, n=None):
        self.kind = kind          # byte | half | word | string | zero
        self.name = name
        self.values = values
        self.string = string
        self.n = n


class Program:
    def __init__(self, text, data, data_first, use_text_directive):
        self.text = text
        self.data = data
        self.data_first = data_first
        self.use_text_directive = use_text_directive


# ----------------------------------------------------------------------------------------- denotation
def layout(data):
    """variables: name -> (address, element size); memory: address -> byte"""
    table = {}
    mem = {}
    a = DATA0
    for d in data:
        if a % 4:
            a += 4 - a % 4
        if d.kind in ("byte", "half", "word"):
            size = {"byte": 1, "half": 2, "word": 4}[d.kind]
            table[d.name] = (a, size)
            for v in d.values:
                for i in range(size):
                    mem[a + i] = (v >> (8 * i)) & 255
                a += size
        elif d.kind == "string":
            table[d.name] = (a, 1)
            for ch in d.string:
                mem[a] = ord(ch) % 256
                a += 1
            mem[a] = 0
            a += 1
        else:
            table[d.name] = (a, 4)
            a += 4 * d.n
    return table, mem


def expand(prog):
    """expected instruction memory: list of (address, mnemonic, fields dict or a predicate description)"""
    table, mem = layout(prog.data)
    # pass 1: sizes and labels
    labels = {}
    addr = 0
    sizes = []
    for it in prog.text:
        if it.kind == "label":
            labels[it.name] = addr
            sizes.append(0)
            continue
        if it.label:
            labels[it.label] = addr
        if it.kind == "li":
            n = 1 if -2048 <= it.c <= 2047 else 2
        elif it.kind == "la":
            n = 2
        elif it.kind in ("ldv", "stv"):
            n = 3
        else:
            n = 1
        sizes.append(n)
        addr += 4 * n
    out = []
    addr = 0
    for it, n in zip(prog.text, sizes):
        if it.kind == "label":
            continue
        if it.kind == "instr":
            f = dict(it.fields)
            mn = it.mn
            if mn in BRANCH or mn == "jal":
                t = it.target
                if t[0] == "label":
                    imm = labels[t[1]] + (t[2] or 0) - addr
                elif mn == "jal":
                    imm = t[1] - addr          # numeric jal operand is the absolute address
                else:
                    imm = t[1]
                f["imm"] = sext(imm, 13 if mn in BRANCH else 21)
            elif mn in SHIFT:
                f["imm"] = f["imm"] % 32
            elif mn in U_TYPE:
                f["imm"] = sext(f["imm"], 20)
            elif "imm" in f:
                f["imm"] = sext(f["imm"], 12)
            out.append((addr, mn, f))
        elif it.kind == "nop":
            out.append((addr, "addi", {"rd": 0, "rs1": 0, "imm": 0}))
        elif it.kind == "mv":
            out.append((addr, "addi", {"rd": it.rd, "rs1": it.rs, "imm": 0}))
        elif it.kind == "ecall":
            out.append((addr, "ecall", {}))
        elif it.kind == "li":
            if n == 1:
                out.append((addr, "addi", {"rd": it.rd, "rs1": 0, "imm": it.c}))
            else:
                out.append((addr, "GROUP", {"reg": it.rd, "value": it.c % 2 ** 32, "then": None}))
        elif it.kind == "la":
            base, size = table[it.var]
            out.append((addr, "GROUP", {"reg": it.rd, "value": (base + size * (it.idx or 0)) % 2 ** 32, "then": None}))
        elif it.kind == "ldv":
            base, size = table[it.var]
            out.append((addr, "GROUP", {"reg": it.rd, "value": (base + size * (it.idx or 0)) % 2 ** 32, "then": (it.mn, {"rd": it.rd, "rs1": it.rd, "imm": 0})}))
        elif it.kind == "stv":
            base, size = table[it.var]
            out.append((addr, "GROUP", {"reg": it.rs2, "value": (base + size * (it.idx or 0)) % 2 ** 32, "then": (it.mn, {"rs1": it.rs2, "rs2": it.rs1, "imm": 0})}))
        addr += 4 * n
    return out, labels, table, mem


def fields_of(ins):
    d = {}
    for k in ("rd", "rs1", "rs2", "imm"):
        if hasattr(ins, k):
            d[k] = getattr(ins, k)
    return d


def matches(expected, instructions):
    """compare the expected denotation with the loaded instruction memory (dict address -> instruction object).
    Returns None or a description of the first mismatch."""
    addrs = sorted(instructions)
    pos = 0
    for (addr, mn, f) in expected:
        if mn == "GROUP":
            need = 3 if f["then"] else 2
            got = [instructions.get(addr + 4 * i) for i in range(need)]
            if any(g is None for g in got):
                return "missing instruction in group at %d" % addr
            lui, addi = got[0], got[1]
            if lui.mnemonic != "lui" or addi.mnemonic != "addi" or lui.rd != f["reg"] or addi.rd != f["reg"] or addi.rs1 != f["reg"]:
                return "group at %d is not lui/addi on x%d: %s; %s" % (addr, f["reg"], lui, addi)
            val = ((lui.imm << 12) + addi.imm) % 2 ** 32
            if val != f["value"]:
                return "group at %d leaves 0x%X, expected 0x%X" % (addr, val, f["value"])
            if f["then"]:
                tmn, tf = f["then"]
                if got[2].mnemonic != tmn or fields_of(got[2]) != tf:
                    return "access after group at %d: %s, expected %s %s" % (addr, got[2], tmn, tf)
            pos += need
        else:
            g = instructions.get(addr)
            if g is None:
                return "no instruction at %d, expected %s %s" % (addr, mn, f)
            ef = dict(f)
            if mn == "ecall":
                if g.mnemonic != "ecall":
                    return "at %d: %s, expected ecall" % (addr, g)
            elif g.mnemonic != mn or fields_of(g) != ef:
                return "at %d: %s %s, expected %s %s" % (addr, g.mnemonic, fields_of(g), mn, ef)
            pos += 1
    if len(addrs) != pos or addrs != [4 * i for i in range(pos)]:
        return "instruction addresses %s, expected %d consecutive words from 0" % (addrs[:12], pos)
    return None


# ----------------------------------------------------------------------------------------- rendering
def rreg(rnd, n):
    c = ["x%d" % n] + ABI_BY_NUM.get(n, [])
    return rnd.choice(c)


def rnum(rnd, v, allow_bin=True):
    forms = [str(v)]
    if v >= 0:
        forms.append(hex(v))
        if allow_bin and v < 2 ** 16:
            forms.append(bin(v))
    else:
        forms.append("-" + hex(-v))
        if allow_bin and -v < 2 ** 16:
            forms.append("-" + bin(-v))
    return rnd.choice(forms)


def rmn(rnd, mn):
    return rnd.choice([mn, mn.upper(), mn.capitalize()])


def render_item(rnd, it):
    if it.kind == "label":
        return it.name + ":"
    pre = (it.label + ": ") if it.label else ""
    k = it.kind
    if k == "nop":
        s = rmn(rnd, "nop")
    elif k == "ecall":
        s = rmn(rnd, "ecall")
    elif k == "mv":
        s = "%s %s, %s" % (rmn(rnd, "mv"), rreg(rnd, it.rd), rreg(rnd, it.rs))
    elif k == "li":
        s = "%s %s, %s" % (rmn(rnd, "li"), rreg(rnd, it.rd), rnum(rnd, it.c))
    elif k in ("la", "ldv", "stv"):
        var = it.var + ("[%d]" % it.idx if it.idx is not None else "")
        if k == "la":
            s = "%s %s, %s" % (rmn(rnd, "la"), rreg(rnd, it.rd), var)
        elif k == "ldv":
            s = "%s %s, %s" % (rmn(rnd, it.mn), rreg(rnd, it.rd), var)
        else:
            s = "%s %s, %s, %s" % (rmn(rnd, it.mn), rreg(rnd, it.rs1), var, rreg(rnd, it.rs2))
    else:
        mn, f = it.mn, it.fields
        m = rmn(rnd, mn)
        if mn in R_TYPE:
            s = "%s %s, %s, %s" % (m, rreg(rnd, f["rd"]), rreg(rnd, f["rs1"]), rreg(rnd, f["rs2"]))
        elif mn in I_TYPE or mn in SHIFT or mn == "jalr":
            s = "%s %s, %s, %s" % (m, rreg(rnd, f["rd"]), rreg(rnd, f["rs1"]), rnum(rnd, f["imm"]))
        elif mn in LOAD:
            if rnd.random() < 0.5:
                s = "%s %s, %s(%s)" % (m, rreg(rnd, f["rd"]), rnum(rnd, f["imm"]), rreg(rnd, f["rs1"]))
            else:
                s = "%s %s, %s, %s" % (m, rreg(rnd, f["rd"]), rreg(rnd, f["rs1"]), rnum(rnd, f["imm"]))
        elif mn in STORE:
            # documented: SB rs1, rs2, imm / SB rs1, imm(rs2) with M[rs2 + imm] = rs1 -> class fields rs2=value reg, rs1=base reg
            if rnd.random() < 0.5:
                s = "%s %s, %s(%s)" % (m, rreg(rnd, f["rs2"]), rnum(rnd, f["imm"]), rreg(rnd, f["rs1"]))
            else:
                s = "%s %s, %s, %s" % (m, rreg(rnd, f["rs2"]), rreg(rnd, f["rs1"]), rnum(rnd, f["imm"]))
        elif mn in U_TYPE:
            s = "%s %s, %s" % (m, rreg(rnd, f["rd"]), rnum(rnd, f["imm"]))
        elif mn in BRANCH or mn == "jal":
            t = it.target
            if t[0] == "label":
                ts = t[1] + ("+" + hex(t[2]) if t[2] else "")
            else:
                ts = rnum(rnd, t[1])
            if mn == "jal":
                s = "%s %s, %s" % (m, rreg(rnd, f["rd"]), ts)
            else:
                s = "%s %s, %s, %s" % (m, rreg(rnd, f["rs1"]), rreg(rnd, f["rs2"]), ts)
        else:
            raise ValueError(mn)
    return pre + s


def render_data(rnd, d):
    if d.kind in ("byte", "half", "word"):
        return "%s: .%s %s" % (d.name, d.kind, ", ".join(rnum(rnd, v) for v in d.values))
    if d.kind == "string":
        return '%s: .string "%s"' % (d.name, d.string)
    return "%s: .zero %d" % (d.name, d.n)


def decorate(rnd, line, plain):
    if plain:
        return [line]
    out = []
    if rnd.random() < 0.15:
        out.append(rnd.choice(["", "   ", "# a comment", "\t# another: one, with x1 and .data"]))
    ind = rnd.choice(["", "  ", "\t", "      "])
    cm = rnd.choice(["", "", " # trailing comment", "   #", " # li x1, 5"])
    out.append(ind + line + cm)
    return out


def render(prog, rnd, plain=False):
    tl = []
    for it in prog.text:
        tl += decorate(rnd, render_item(rnd, it), plain)
    dl = []
    for d in prog.data:
        dl += decorate(rnd, render_data(rnd, d), plain)
    lines = []
    if prog.data and prog.data_first:
        lines += [".data"] + dl + [".text"] + tl
    elif prog.data:
        lines += ([".text"] if prog.use_text_directive else []) + tl + [".data"] + dl
    else:
        lines += ([".text"] if prog.use_text_directive else []) + tl
    return "\n".join(lines)


# ----------------------------------------------------------------------------------------- generation
def gen_data(rnd, n):
    out = []
    for i in range(n):
        name = "v%d_%s" % (i, rnd.choice(["a", "buf", "Tab", "x_1"]))
        k = rnd.choice(["byte", "half", "word", "string", "zero", "word", "byte"])
        if k in ("byte", "half", "word"):
            bits = {"byte": 8, "half": 16, "word": 32}[k]
            vals = [rnd.choice([0, 1, -1, 2 ** (bits - 1) - 1, -(2 ** (bits - 1)), 2 ** bits - 1, rnd.randint(-2 ** bits, 2 ** (bits + 1)), rnd.randint(0, 255)])
                    for _ in range(rnd.randint(1, 5))]
            out.append(Data(k, name, values=vals))
        elif k == "string":
            out.append(Data(k, name, string="".join(rnd.choice("Hello, World! abc:XYZ09") for _ in range(rnd.randint(0, 9)))))
        elif rnd.random() < 0.25:
            # a large reservation pushes the following variables across the 2 KiB / 4 KiB boundaries of the address
            # (bit 11 set, carry into the upper part): the lui/addi split of la / load / store by name
            out.append(Data(k, name, n=rnd.choice([500, 511, 512, 513, 1000, 1023, 1024, 1025, 1536])))
        else:
            out.append(Data(k, name, n=rnd.randint(0, 5)))
    return out


def n_elems(d):
    if d.kind in ("byte", "half", "word"):
        return len(d.values)
    if d.kind == "string":
        return len(d.string) + 1
    return max(d.n, 1)


def gen_item(rnd, data, label_names):
    r = lambda: rnd.randint(0, 31)
    k = rnd.random()
    imm12 = lambda: rnd.choice([0, 1, -1, 2047, -2048, rnd.randint(-2048, 2047), rnd.randint(-2048, 2047)])
    if k < 0.12:
        return Item("instr", mn=rnd.choice(R_TYPE), fields={"rd": r(), "rs1": r(), "rs2": r()})
    if k < 0.22:
        return Item("instr", mn=rnd.choice(I_TYPE + ["jalr"]), fields={"rd": r(), "rs1": r(), "imm": imm12()})
    if k < 0.27:
        return Item("instr", mn=rnd.choice(SHIFT), fields={"rd": r(), "rs1": r(), "imm": rnd.randint(0, 31)})
    if k < 0.35:
        return Item("instr", mn=rnd.choice(LOAD), fields={"rd": r(), "rs1": r(), "imm": imm12()})
    if k < 0.42:
        return Item("instr", mn=rnd.choice(STORE), fields={"rs1": r(), "rs2": r(), "imm": imm12()})
    if k < 0.47:
        return Item("instr", mn=rnd.choice(U_TYPE), fields={"rd": r(), "imm": rnd.choice([0, 1, 2 ** 19 - 1, 2 ** 20 - 1, rnd.randint(0, 2 ** 20 - 1)])})
    if k < 0.60:
        mn = rnd.choice(BRANCH + ["jal"])
        if label_names and rnd.random() < 0.7:
            t = ("label", rnd.choice(label_names), rnd.choice([None, None, 4, 8, 0x10]))
        else:
            t = ("num", 2 * rnd.randint(-40, 40))
        f = {"rd": r()} if mn == "jal" else {"rs1": r(), "rs2": r()}
        return Item("instr", mn=mn, fields=f, target=t)
    if k < 0.64:
        return Item("nop")
    if k < 0.68:
        return Item("mv", rd=r(), rs=r())
    if k < 0.70:
        return Item("ecall")
    if k < 0.80 or not data:
        c = rnd.choice([0, 1, -1, 2047, 2048, -2048, -2049, 4095, 4096, 0x7FF, 0x800, 0xFFF, 0x1000, 0x7FFFF800, 0x7FFFFFFF, 0x80000000,
                        0xFFFFF7FF, 0xFFFFF800, 0xFFFFFFFF, -2 ** 31, 100000, rnd.randint(-2 ** 31, 2 ** 32 - 1), rnd.randint(-5000, 5000)])
        return Item("li", rd=r(), c=c)
    d = rnd.choice(data)
    idx = rnd.choice([None, 0, rnd.randint(0, n_elems(d) - 1), rnd.randint(0, n_elems(d) - 1)])
    kk = rnd.random()
    if kk < 0.34:
        return Item("la", rd=r(), var=d.name, idx=idx)
    if kk < 0.67:
        return Item("ldv", mn=rnd.choice(LOAD), rd=r(), var=d.name, idx=idx)
    return Item("stv", mn=rnd.choice(STORE), rs1=r(), rs2=r(), var=d.name, idx=idx)


def gen_program(rnd, max_lines=30, with_data=None):
    nd = rnd.randint(0, 4) if with_data is None else with_data
    data = gen_data(rnd, nd)
    n = rnd.randint(0, max_lines)
    n_labels = rnd.randint(0, 4)
    label_names = ["L%d_%s" % (i, rnd.choice(["loop", "end", "Fn", "_x"])) for i in range(n_labels)]
    # any identifier is a label name -- also one spelled like a mnemonic, a register or a directive keyword (tests/ has
    # labels named like registers); a sixth of the programs name one label that way
    if label_names and rnd.random() < 1 / 6:
        special = rnd.choice(["sub", "and", "add", "rem", "div", "mul", "or", "lw", "sw", "beq", "jal", "li", "la", "mv", "nop_", "Add", "x5_", "zero_", "a0_", "word", "text_"])
        if special not in label_names:
            label_names[rnd.randrange(len(label_names))] = special
    items = [gen_item(rnd, data, label_names) for _ in range(n)]
    # place every label exactly once: stand-alone (possibly at the very end) or in-line
    for name in label_names:
        pos = rnd.randint(0, len(items))
        if pos < len(items) and items[pos].kind != "label" and items[pos].label is None and rnd.random() < 0.5:
            items[pos].label = name
        else:
            items.insert(pos, Item("label", name=name))
    return Program(items, data, data_first=rnd.random() < 0.5, use_text_directive=rnd.random() < 0.5)
