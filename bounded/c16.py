"""BOUNDED differential check of C16 as stated (beside the whole-heap frame proofs of contracts/c16_purity.py, never
counted as proved): a run in which every inspection function is called (twice) after every step is compared with runs
of the same program without any such calls -- every inspection result at a sampled time t and at the end equals the
result of inspecting, for the first time, an uninspected run stopped at t; final architectural state, output, counters
and cache statistics are equal.  RISC-V in both modes, uncached and with random data/instruction caches; TOY with
generated self-modifying programs.  This is the observable statement; it does not care how the heap looks (a memo field
may differ), and it is what notices an inspection function that remembers an answer for too long."""
import random
import re
from bounded import c06, c20

RISCV = ["get_register_entries", "get_data_memory_entries", "get_instruction_memory_entries", "get_data_cache_entries",
         "get_data_cache_stats", "get_instruction_cache_entries", "get_instruction_cache_stats", "get_output",
         "get_exit_code", "is_done", "has_instructions", "get_performance_metrics_str"]
FIVE = ["get_riscv_five_stage_svg_update_values"]
SINGLE = ["get_riscv_single_stage_svg_update_values"]
TOY = ["get_register_representations", "get_memory_table_entries", "get_toy_svg_update_values", "is_done", "has_instructions",
       "get_performance_metrics_str"]
TIME = re.compile(r"[0-9.]+ ?s\b|[0-9.]+ ?Hz|[0-9.eE+-]+ ?(?:ms|us|ns)\b|execution time[^\n]*|instructions/s[^\n]*|[Ss]imulation [Ff]requency[^\n]*")


def observe(sim, fns):
    out = {}
    for fn in fns:
        f = getattr(sim, fn, None)
        if f is None:
            continue
        try:
            r = f()
        except Exception as e:
            out[fn] = "raises " + type(e).__name__
            continue
        if fn == "get_performance_metrics_str":
            r = "\n".join(l for l in str(r).splitlines() if not TIME.search(l))
        out[fn] = c20.dump(r)
    return out


_TABLES = []


def global_tables():
    """dump of every class-level and module-level list / dict / set of the package: tables shared by all simulations of
    the process.  An inspection call that edits one in place changes later results everywhere, and would escape a
    comparison of two runs made in the same process (both see the edited table)."""
    import sys
    import inspect
    if not _TABLES:
        from pyvc import fields
        known = fields.baseline()          # tables the package had when the contracts were written; a table added since
        #                                    (e.g. a lazily filled class-level memo) is not policed here
        for name, mod in list(sys.modules.items()):
            if not name.startswith("architecture_simulator") or mod is None:
                continue
            for k, v in list(vars(mod).items()):
                if isinstance(v, (dict, list, set)) and not k.startswith("__") and k in known:
                    _TABLES.append(("%s.%s" % (name, k), v))
                elif inspect.isclass(v) and getattr(v, "__module__", None) == name:
                    for a, x in list(vars(v).items()):
                        if isinstance(x, (dict, list, set)) and not a.startswith("__") and a in known:
                            _TABLES.append(("%s.%s.%s" % (name, k, a), x))
    return {k: c20.dump(v) for k, v in _TABLES}


def run_pair(make, fns, max_steps, rnd, step="step"):
    """-> (disagreement or None, number of steps)"""
    from architecture_simulator.simulation.runtime_errors import InstructionExecutionException
    A = make()
    at = []
    n = 0
    fault = None
    while n < max_steps:
        g0 = global_tables()
        obs = observe(A, fns)
        again = observe(A, fns)
        g1 = global_tables()
        if g0 != g1:
            return "inspection calls after %d steps edited a table shared by all simulations: %s" % (n, c20.diff(g0, g1)), n
        if obs != again:
            d = c20.diff(obs, again)
            return "calling the inspection functions twice in a row after %d steps gives different answers at %s" % (n, d), n
        at.append(obs)
        if A.is_done():
            break
        try:
            getattr(A, step)()
        except InstructionExecutionException as e:
            fault = repr(e)
            break
        n += 1
    times = sorted(set([len(at) - 1, rnd.randrange(len(at)), rnd.randrange(len(at)), 0]))
    for t in times:
        B = make()
        fb = None
        for _ in range(t):
            try:
                getattr(B, step)()
            except InstructionExecutionException as e:
                fb = repr(e)
                break
        if fb is not None:
            return "the uninspected run faults (%s) where the inspected one does not" % fb, n
        first = observe(B, fns)
        d = c20.diff(first, at[t])
        if d:
            return "after %d steps: inspection result %s differs between a run inspected after every step and a run never inspected before" % (t, d), n
        if t == len(at) - 1 and fault is not None:
            try:
                getattr(B, step)()
                return "the inspected run faults (%s) where the uninspected one does not" % fault, n
            except InstructionExecutionException as e:
                if repr(e) != fault:
                    return "fault reports differ: %s / %s" % (fault, repr(e)), n
    return None, n


def run(tier, seed):
    from bounded import progs
    from architecture_simulator.uarch.memory.cache import CacheOptions
    from architecture_simulator.simulation.toy_simulation import ToySimulation
    rnd = random.Random(seed + 16)
    evals, viol, shapes = 0, [], set()
    from architecture_simulator.isa.riscv import rv32i_instructions as I
    for it in range(320 if tier == "quick" else 2500):
        dense = it % 2 == 1
        if dense:
            # memory-dense programs over a handful of blocks with small associative caches: hits on blocks that are not
            # the most recently used one, between inspections
            prog = [rnd.choice([lambda: I.LW(rnd.choice([1, 2]), 3, 4 * rnd.choice([0, 1, 8, 9, 16, 17, 24])), lambda: I.LW(1, 3, 4 * rnd.choice([0, 8, 16])),
                                lambda: I.SW(3, rnd.choice([1, 2]), 4 * rnd.choice([0, 1, 8, 16, 24])), lambda: I.LBU(2, 3, rnd.choice([0, 33, 65])),
                                lambda: I.ADDI(1, 1, 1), lambda: I.ADDI(0, 0, 0)])() for _ in range(rnd.randint(4, 12))]
        else:
            prog = progs.random_program(rnd, rnd.randint(2, 12))
        regs = progs.initial_regs(rnd)
        mode = rnd.choice(["single_stage_pipeline", "five_stage_pipeline"])
        if mode == "single_stage_pipeline" and it % 3 == 0:
            # "for all programs": in single-cycle mode also programs with CSR instructions (user-level CSRs) -- after one of
            # them the stage's register is a plain PipelineRegister, a path of the visualisation getters of its own
            for _ in range(rnd.randint(1, 2)):
                k = rnd.randint(0, len(prog))
                prog = prog[:k] + [rnd.choice([I.CSRRW, I.CSRRS, I.CSRRC])(rd=rnd.choice([0, 5, 6]), csr=rnd.choice([1, 2, 3]), rs1=rnd.choice([0, 1, 2]))] + prog[k:]
        cached = dense or rnd.random() < 0.6
        d = i = None
        if cached and dense:
            d = CacheOptions(True, rnd.randint(0, 1), rnd.randint(0, 1), rnd.choice([2, 2, 4]), rnd.choice(["wb", "wt"]), rnd.choice(["lru", "lru", "plru"]), rnd.choice([0, 3]))
            i = CacheOptions(True, rnd.randint(0, 1), 0, 2, "wb", rnd.choice(["lru", "plru"]), rnd.choice([0, 2]))
        elif cached:
            d = CacheOptions(True, rnd.randint(0, 2), rnd.randint(0, 1), rnd.choice([1, 2, 4]), rnd.choice(["wb", "wt"]), rnd.choice(["lru", "plru"]), rnd.choice([0, 3]))
            i = CacheOptions(True, rnd.randint(0, 1), rnd.randint(0, 1), rnd.choice([1, 2]), "wb", rnd.choice(["lru", "plru"]), rnd.choice([0, 2]))
        fns = RISCV + (FIVE if mode.startswith("five") else SINGLE)
        bad, n = run_pair(lambda: progs.make_sim(prog, regs, mode, True, dcache=d, icache=i), fns, 60, rnd)
        evals += 1
        if n >= 3:
            shapes.add((mode, cached, d.cache_type if d else None, min(n, 12)))
        if bad and len(viol) < 5:
            viol.append({"key": "C16:riscv:" + bad[:70], "what": bad, "program": [str(p) for p in prog], "mode": mode, "cached": cached, "seed": seed, "index": it})
    for it in range(500 if tier == "quick" else 6000):
        text, n_ins = c06.gen(rnd)
        hit, _ = c06.classify(text, n_ins)

        def mk():
            t = ToySimulation()
            t.load_program(text)
            return t
        # (half of the TOY runs advance by half cycles, so that the inspections also see the machine in mid-instruction)
        half = it % 2 == 0
        bad, n = run_pair(mk, TOY, 2 * c06.STEP_BOUND if half else c06.STEP_BOUND, rnd, "single_step" if half else "step")
        evals += 1
        if n >= 3:
            shapes.add(("toy", hit, half, min(n, 12)))
        if bad and len(viol) < 5:
            viol.append({"key": "C16:toy:" + bad[:70], "what": bad, "text": text})
    return {"evaluations": evals, "distinct_nontrivial": len(shapes), "violations": viol, "samples": [{"text": "LDA 4\nSTO 2\nDEC\nBRZ 0\nINC\n"}],
            "rule": "random RISC-V programs (alphabet of bounded/progs, 2..12 instructions) x both modes x uncached / random data+instruction caches, and generated TOY programs (bounded/c06, self-modifying ones included); each run once with every inspection function called twice after every step and, for the end and two random times t, once without any inspection before t; non-trivial = runs of at least 3 steps; distinct by (mode, caches, length)",
            "bound": "<= 12 instructions / 60 steps (RISC-V), <= 7 instructions / %d steps (TOY)" % c06.STEP_BOUND,
            "contract": "every inspection result at time t of the inspected run == result of the first inspection of an uninspected run at t (wall-clock lines of the metrics text excluded); repeated calls agree; fault behaviour identical"}


def replay(j):
    print("recorded:", j.get("what"))
    if "text" in j:
        from architecture_simulator.simulation.toy_simulation import ToySimulation

        def mk():
            t = ToySimulation()
            t.load_program(j["text"])
            return t
        bad = None
        for s in range(20):
            bad, _ = run_pair(mk, TOY, 2 * c06.STEP_BOUND, random.Random(s), "single_step" if s % 2 == 0 else "step")
            if bad:
                break
        print("now:", bad or "inspected and uninspected runs agree")
        return bad is None
    r = run("quick", j["seed"])
    return not any(v["key"] == j["key"] for v in r["violations"])          # True = the contract holds now
