"""BOUNDED history cross-check for C18 (beside the per-method proofs of contracts/c18_memory.py, never counted as
proved): random sequences of reads, writes and resets on the real Memory objects of the three instantiations are
compared, operation by operation, with a reference cell store written from the property (little-endian, cells of the
addressing width, modulo 2**address_length where wrap-around is on, every touched cell range-checked in ascending order,
cells before the first invalid one are written).  The proofs start each method from an arbitrary `memory_file`; this is
what notices history kept anywhere else in the object."""
import random

WIDTH = {"byte": 8, "halfword": 16, "word": 32, "doubleword": 64}


class Ref:
    def __init__(self, cell_bits, alen, wrap, lo, top):
        self.cells, self.cell_bits, self.alen, self.wrap, self.lo, self.top = {}, cell_bits, alen, wrap, lo, top

    def eff(self, a):
        return a % 2 ** self.alen if self.wrap else a

    def ok(self, a):
        return self.lo <= a < self.top

    def read(self, a, bits):
        if bits < self.cell_bits:
            return ("unsupported",)
        v = 0
        for i in range(bits // self.cell_bits):
            c = self.eff(a + i)
            if not self.ok(c):
                return ("address-error",)
            v += self.cells.get(c, 0) << (self.cell_bits * i)
        return ("value", v)

    def write(self, a, bits, value):
        if bits < self.cell_bits:
            return ("unsupported",)
        for i in range(bits // self.cell_bits):
            c = self.eff(a + i)
            if not self.ok(c):
                return ("address-error",)
            self.cells[c] = (value >> (self.cell_bits * i)) % 2 ** self.cell_bits
        return ("value", None)


def instances():
    from architecture_simulator.uarch.memory.memory import Memory, AddressingType
    from architecture_simulator.uarch.riscv.riscv_architectural_state import RiscvArchitecturalState
    from architecture_simulator.uarch.toy.toy_architectural_state import ToyArchitecturalState
    return [("riscv", lambda: RiscvArchitecturalState().memory, lambda: Ref(8, 32, True, 2 ** 14, 2 ** 32)),
            ("toy", lambda: ToyArchitecturalState().memory, lambda: Ref(16, 12, False, 0, 4096)),
            ("full", lambda: Memory(AddressingType.BYTE, 32, True), lambda: Ref(8, 32, True, 0, 2 ** 32))]


def addresses(rnd, ref):
    base = rnd.choice([ref.lo, ref.top - 1, ref.top - 2, ref.top - 4, ref.lo + 1, ref.lo + 100, (ref.lo + ref.top) // 2, ref.lo - 1, ref.top, 0, 2 ** 32, -1])
    return [base + d for d in (-3, -2, -1, 0, 1, 2, 3, 4, 5, 8)] + [base + 2 ** 32, base - 2 ** 32]


def one_history(name, mk, mkref, rnd, length):
    from architecture_simulator.uarch.memory.memory import MemoryAddressError, UnsupportedFunctionError
    from fixedint import UInt8, UInt16, UInt32, UInt64
    FT = {"byte": UInt8, "halfword": UInt16, "word": UInt32, "doubleword": UInt64}
    m, ref = mk(), mkref()
    pool = addresses(rnd, ref)
    hist = []
    for step in range(length):
        w = rnd.choice(list(WIDTH))
        a = rnd.choice(pool)
        k = rnd.random()
        if k < 0.03:
            m.reset()
            ref.cells = {}
            hist.append(("reset",))
            continue
        if k < 0.5:
            v = rnd.choice([0, 1, 2 ** WIDTH[w] - 1, rnd.getrandbits(WIDTH[w]), 0x8001020304050607 % 2 ** WIDTH[w]])
            hist.append(("write_" + w, a, v))
            want = ref.write(a, WIDTH[w], v)
            try:
                getattr(m, "write_" + w)(a, FT[w](v))
                got = ("value", None)
            except MemoryAddressError:
                got = ("address-error",)
            except UnsupportedFunctionError:
                got = ("unsupported",)
        else:
            hist.append(("read_" + w, a))
            want = ref.read(a, WIDTH[w])
            try:
                r = getattr(m, "read_" + w)(a)
                got = ("value", int(r))
                if type(r) is not FT[w]:
                    return "%s: read_%s returns a %s" % (name, w, type(r).__name__), hist
            except MemoryAddressError:
                got = ("address-error",)
            except UnsupportedFunctionError:
                got = ("unsupported",)
        if got != want:
            return "%s after %d operations: %s(%s) -> %s, reference %s" % (name, step + 1, hist[-1][0], hist[-1][1], got, want), hist
        cells = {int(kk): int(vv) for kk, vv in m.memory_file.items()}
        for c in set(cells) | set(ref.cells):
            if cells.get(c, 0) != ref.cells.get(c, 0):
                return "%s after %d operations (%s): cell %d = %d, reference %d" % (name, step + 1, hist[-1][0], c, cells.get(c, 0), ref.cells.get(c, 0)), hist
        if any(not ref.ok(c) for c in cells):
            return "%s after %d operations: a cell outside the address range is stored" % (name, step + 1), hist
    return None, hist


def run(tier, seed):
    rnd = random.Random(seed + 18)
    evals, viol = 0, []
    kinds = set()
    for it in range(600 if tier == "quick" else 20000):
        for name, mk, mkref in instances():
            bad, hist = one_history(name, mk, mkref, rnd, 40)
            evals += len(hist)
            kinds.add((name, tuple(sorted({h[0] for h in hist}))))
            if bad and len(viol) < 5:
                viol.append({"key": "C18:" + bad[:80], "what": bad, "instance": name, "history": [list(h) for h in hist]})
    return {"evaluations": evals, "distinct_nontrivial": len(kinds), "violations": viol, "samples": [{"history": "write_word(2**32-2, v); read_halfword(0)", "instance": "full"}],
            "rule": "random histories of 40 operations (reads/writes of all four widths, reset) on the three instantiations (RISC-V data memory, TOY memory, full-range byte memory) at addresses clustered around the range boundaries, 0, 2**32 and their +-2**32 aliases; non-trivial = distinct (instance, set of operations)",
            "bound": "40 operations per history",
            "contract": "every operation's outcome (value and type / MemoryAddressError / UnsupportedFunctionError) and the stored cells after it equal the reference cell store; no cell outside the address range is ever stored"}


def replay(j):
    from architecture_simulator.uarch.memory.memory import MemoryAddressError, UnsupportedFunctionError
    from fixedint import UInt8, UInt16, UInt32, UInt64
    FT = {"byte": UInt8, "halfword": UInt16, "word": UInt32, "doubleword": UInt64}
    name, mk, mkref = [i for i in instances() if i[0] == j["instance"]][0]
    m, ref = mk(), mkref()
    bad = False
    for h in j["history"]:
        if h[0] == "reset":
            m.reset()
            ref.cells = {}
            continue
        w = h[0].split("_")[1]
        try:
            if h[0].startswith("write"):
                want = ref.write(h[1], WIDTH[w], h[2])
                getattr(m, h[0])(h[1], FT[w](h[2]))
                got = ("value", None)
            else:
                want = ref.read(h[1], WIDTH[w])
                got = ("value", int(getattr(m, h[0])(h[1])))
        except MemoryAddressError:
            got = ("address-error",)
        except UnsupportedFunctionError:
            got = ("unsupported",)
        cells = {int(kk): int(vv) for kk, vv in m.memory_file.items()}
        if got != want or any(cells.get(c, 0) != ref.cells.get(c, 0) for c in set(cells) | set(ref.cells)):
            print("disagreement at", h, "got", got, "reference", want)
            bad = True
            break
    print("recorded:", j.get("what"))
    return not bad          # True = the contract holds now
