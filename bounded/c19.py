"""BOUNDED run-time contract on the real TOY assembler (ToySimulation.load_program): instruction i at address i, data
variables downward from the top of memory in declaration order with array elements ascending, labels and variable
names resolved regardless of segment order, decimal and hexadecimal operands, documented examples."""
import itertools
import random
from architecture_simulator.simulation.toy_simulation import ToySimulation

ADDR = ["STO", "LDA", "BRZ", "ADD", "SUB", "OR", "AND", "XOR"]
NOADDR = ["NOT", "INC", "DEC", "ZRO", "NOP"]
OPC = {m: i for i, m in enumerate(ADDR + NOADDR)}

EX1 = """# computes the sum of the numbers from 1 to n
.data
    n: .word 10 # enter n here
    result: .word 0
.text
    LDA n # skip to the end if n=0
    BRZ end
    loop:
        LDA result
        ADD n
        STO result
        LDA n
        DEC
        STO n
        BRZ end
        ZRO
        BRZ loop
    end:
"""
EX2 = """# store second value of my_tuple in my_value
.data
    my_tuple: .word 3, 4
    my_value: .word 0
.text
    LDA my_load_instruction     # load 'LDA my_tuple' (LDA 0xFFE) into accu
    INC                         # increment address in LDA instruction
    STO my_load_instruction     # store 'LDA 0xFFF' at my_load_instruction
    my_load_instruction:        # this label points to the memory location of LDA instruction
    LDA my_tuple                # actually load data at my_tuple + 1 (=0xFFF)
    STO my_value                # store value of second tuple entry at my_value (0xFFD)
"""


def gen(rnd, n_instr, n_labels, n_vars):
    labels = ["lab%d" % i for i in range(n_labels)]
    vars_ = [("var%d" % i, [rnd.randint(0, 65535) for _ in range(rnd.randint(1, 4))]) for i in range(n_vars)]
    items = []
    for i in range(n_instr):
        mn = rnd.choice(ADDR + NOADDR)
        if mn in ADDR:
            k = rnd.random()
            if k < 0.35 and labels:
                op = ("name", rnd.choice(labels))
            elif k < 0.6 and vars_:
                op = ("name", rnd.choice(vars_)[0])
            else:
                op = ("num", rnd.randint(0, 4095))
            items.append(["i", mn, op, None])
        else:
            items.append(["i", mn, None, None])
    for l in labels:
        pos = rnd.randint(0, len(items))
        if pos < len(items) and items[pos][0] == "i" and items[pos][3] is None and rnd.random() < 0.5:
            items[pos][3] = l
        else:
            items.insert(pos, ["l", l])
    return items, vars_, rnd.random() < 0.5


def render(rnd, items, vars_, data_first):
    tl = []
    for it in items:
        if it[0] == "l":
            tl.append(it[1] + ":")
        else:
            s = rnd.choice([it[1], it[1].lower(), it[1].capitalize()])
            if it[2]:
                s += " " + (it[2][1] if it[2][0] == "name" else rnd.choice([str(it[2][1]), hex(it[2][1]), "0x%03X" % it[2][1], "%04d" % it[2][1], "0%d" % it[2][1]]))
            if it[3]:
                s = it[3] + ": " + s
            tl.append(rnd.choice(["", "  ", "\t"]) + s + rnd.choice(["", " # c"]))
    dl = ["%s: .word %s" % (n, ", ".join(rnd.choice([str(v), hex(v), "%06d" % v, "0x%04x" % v]) for v in vals)) for n, vals in vars_]
    if not vars_:
        return "\n".join(tl)
    if data_first:
        return "\n".join([".data"] + dl + [".text"] + tl)
    return "\n".join(tl + [".data"] + dl)


def denote(items, vars_, size=4096):
    table = {}
    top = size - 1
    mem = {}
    for n, vals in vars_:
        top -= len(vals)
        table[n] = top + 1
        for i, v in enumerate(vals):
            mem[top + 1 + i] = v
    pc = 0
    for it in items:
        if it[0] == "l":
            table[it[1]] = pc
        else:
            if it[3]:
                table[it[3]] = pc
            pc += 1
    pc = 0
    for it in items:
        if it[0] == "i":
            a = 0
            if it[2]:
                a = table[it[2][1]] if it[2][0] == "name" else it[2][1]
            mem[pc] = (OPC[it[1]] << 12) + a
            pc += 1
    return mem, pc


def check(items, vars_, data_first, rnd, size=None):
    """size: a simulation configured with a smaller unified memory places its data downward from ITS top"""
    text = render(rnd, items, vars_, data_first)
    want, n = denote(items, vars_, size or 4096)
    try:
        t = ToySimulation() if size is None else ToySimulation(unified_memory_size=size)
        t.load_program(text)
        if size is not None and size - 1 - sum(len(v) for _, v in vars_) < n:
            return None, text          # (does not fit: the size check is not what is examined here)
    except Exception as e:
        return "%s: %s" % (type(e).__name__, str(e)[:80] or repr(e)[:80]), text
    got = {a: int(v) for a, v in t.state.memory.memory_file.items()}
    if got != want:
        diff = [(a, got.get(a), want.get(a)) for a in sorted(set(got) | set(want)) if got.get(a) != want.get(a)][:4]
        return "memory differs (address, got, expected): %s" % diff, text
    if n and (t.state.max_pc != n - 1 or int(t.state.loaded_instruction) != want[0] % 65536 and OPC.get(str(t.state.loaded_instruction).split()[0]) is None):
        return "max_pc %r for %d instructions" % (t.state.max_pc, n), text
    return None, text


def run(tier, seed):
    rnd = random.Random(seed + 19)
    evals, seen, viol, samples = 0, set(), [], []
    # documented examples
    for name, src, addr, want in (("example1", EX1, 4094, 55), ("example2", EX2, 4093, 4)):
        t = ToySimulation()
        t.load_program(src)
        t.run()
        evals += 1
        got = int(t.state.memory.read_halfword(addr))
        if got != want:
            viol.append({"key": "C19:" + name, "what": "%s computes %d at 0x%X, documented result %d" % (name, got, addr, want), "text": src})
    # exhaustive small scope
    small = []
    for n in (1, 2, 3):
        for combo in itertools.product([("LDA", ("name", "L")), ("BRZ", ("name", "v")), ("INC", None), ("STO", ("num", 7)), ("ADD", ("name", "w"))], repeat=n):
            for place in range(2 * n + 1):
                items = [["i", m, op, None] for m, op in combo]
                if place < n:
                    items[place][3] = "L"
                else:
                    items.insert(place - n, ["l", "L"])
                for df in (True, False):
                    small.append((items, [("v", [1, 2]), ("w", [3])], df))
    rand = ((lambda g: g)(gen(rnd, rnd.randint(0, 25), rnd.randint(0, 4), rnd.randint(0, 3))) for _ in range(1500 if tier == "quick" else 40000))
    for items, vars_, df in itertools.chain(small, rand):
        evals += 1
        # every eighth program is assembled by a simulation with a smaller unified memory
        size = [None, None, None, None, None, None, None, rnd.choice([64, 100, 1000, 2048])][evals % 8]
        bad, text = check(items, vars_, df, rnd, size)
        inline = any(it[0] == "i" and it[3] for it in items)
        seen.add((tuple((it[0], it[1] if it[0] == "i" else None, bool(it[0] == "i" and it[3]), it[2][0] if it[0] == "i" and it[2] else None) for it in items), len(vars_), df))
        if bad and len(viol) < 5:
            viol.append({"key": "C19:" + bad[:70], "what": bad, "text": text, "unified_memory_size": size,
                         "expected_memory": {str(a): v for a, v in denote(items, vars_, size or 4096)[0].items()}})
        elif not bad and inline and len(samples) < 2 and len(text) < 300:
            samples.append({"text": text})
    return {"evaluations": evals, "distinct_nontrivial": len(seen), "violations": viol, "samples": samples or [{"text": "LDA 5"}],
            "rule": "(every eighth program is assembled by a simulation configured with a smaller unified memory: data is then placed downward from that memory's top) TOY program ASTs: exhaustive over sequences of <= 3 instructions from 5 templates (label operand, variable operands, numeric, no operand) x every placement of one label (in-line on each instruction, stand-alone anywhere incl. the end) x segment order; seeded random programs up to 25 instructions with up to 4 labels and 3 array variables, operands decimal (also with leading zeros) / hex (also zero-padded), mnemonic case, comments; plus the two documented examples executed; distinct by AST shape",
            "bound": "<= 25 instructions", "contract": "memory == {i: encoding of instruction i} + data downward from 4095 in declaration order, elements ascending; max_pc = n-1"}


def replay(j):
    """True = the contract holds now"""
    try:
        t = ToySimulation() if not j.get("unified_memory_size") else ToySimulation(unified_memory_size=j["unified_memory_size"])
        t.load_program(j["text"])
        got = {str(a): int(v) for a, v in sorted(t.state.memory.memory_file.items())}
        print({a: hex(v) for a, v in got.items()})
    except Exception as e:
        print("load raises", type(e).__name__, e)
        got = None
    print("recorded:", j.get("what"))
    if "expected_memory" in j:
        return got == j["expected_memory"]
    return False
