"""BOUNDED exhaustive cross-check for C10 (beside the per-operation proofs of contracts/c10_replacement.py, never counted
as proved): every reachable state of the real LRU / PLRU objects -- the WHOLE object, whatever fields it has -- is
explored breadth-first together with the reference policy state (recency order / tree bits, written from the property),
and in every reachable pair the victim, the reported ages / bits and the no-op clause are compared.  The proofs
quantify over the states the harness can build from the fields it knows; this exploration is what notices a policy that
keeps additional history in a field of its own."""
import copy
import random


def key(obj):
    """the whole object: distinguishes reachable states during exploration, whatever fields there are"""
    return repr(sorted((k, repr(v)) for k, v in vars(obj).items()))


def policy_state(obj):
    """the attributes the package had when the contracts were written (pyvc/fields_baseline.json): what "the policy state
    is unchanged" is judged on -- an unread debug counter is not policy state; a field that matters shows in the victims"""
    from pyvc import fields
    return repr(sorted((k, repr(v)) for k, v in vars(obj).items() if k in fields.baseline()))


def ref_lru_access(order, i):
    return tuple(b for b in order if b != i) + (i,)


def plru_depth(n):
    d = 0
    while 2 ** d < n:
        d += 1
    return d


def ref_plru_access(bits, n, x):
    bits = list(bits)
    node, lo, hi = 0, 0, n
    while hi - lo > 1:
        mid = (lo + hi) // 2
        if x < mid:
            bits[node] = True          # point away: to the right half
            node, hi = 2 * node + 1, mid
        else:
            bits[node] = False
            node, lo = 2 * node + 2, mid
    return tuple(bits)


def ref_plru_victim(bits, n):
    node, lo, hi = 0, 0, n
    while hi - lo > 1:
        mid = (lo + hi) // 2
        if bits[node]:
            node, lo = 2 * node + 2, mid
        else:
            node, hi = 2 * node + 1, mid
    return lo


def explore(kind, n, cap, viol):
    from architecture_simulator.uarch.memory.replacement_strategies import LRU, PLRU
    pol = LRU(n) if kind == "lru" else PLRU(n)
    ref = tuple(range(n)) if kind == "lru" else tuple([False] * (n - 1))
    seen = {(key(pol), ref)}
    frontier = [(pol, ref, ())]
    states = 0
    while frontier and states < cap:
        nxt = []
        for pol, ref, hist in frontier:
            states += 1
            # observations in this state
            before = policy_state(pol)
            v = pol.get_next_to_replace()
            r = pol.get_repr()
            if policy_state(pol) != before:
                viol.append({"key": "C10:%s:%d:inspection-changes-state" % (kind, n), "what": "get_next_to_replace/get_repr change the policy state after accesses %s" % (list(hist),), "policy": kind, "n": n, "history": list(hist)})
                return states
            if kind == "lru":
                want_v, want_r = ref[0], [ref.index(b) for b in range(n)]
            else:
                want_v, want_r = ref_plru_victim(ref, n), list(ref)
            if v != want_v or list(r) != want_r:
                viol.append({"key": "C10:%s:%d:victim-or-repr" % (kind, n), "what": "%s(%d) after accesses %s: victim %s, repr %s; prescribed victim %s, repr %s" % (kind.upper(), n, list(hist), v, list(r), want_v, want_r), "policy": kind, "n": n, "history": list(hist)})
                return states
            for i in range(n):
                p2 = copy.deepcopy(pol)
                p2.access(i)
                k1 = key(p2)
                s1 = policy_state(p2)
                p3 = copy.deepcopy(p2)
                p3.access(i)
                if policy_state(p3) != s1 or p3.get_next_to_replace() != p2.get_next_to_replace() or list(p3.get_repr()) != list(p2.get_repr()):
                    viol.append({"key": "C10:%s:%d:second-access" % (kind, n), "what": "%s(%d) after accesses %s: accessing block %d a second time in a row changes the state" % (kind.upper(), n, list(hist) + [i], i), "policy": kind, "n": n, "history": list(hist) + [i, i]})
                    return states
                r2 = ref_lru_access(ref, i) if kind == "lru" else ref_plru_access(ref, n, i)
                kk = (k1, r2)
                if kk not in seen:
                    seen.add(kk)
                    nxt.append((p2, r2, hist + (i,)))
        frontier = nxt
    return states


def run(tier, seed):
    viol = []
    total = 0
    sizes = {"lru": [1, 2, 3, 4, 5] if tier == "quick" else [1, 2, 3, 4, 5, 6, 7], "plru": [1, 2, 4, 8] if tier == "quick" else [1, 2, 4, 8, 16]}
    cap = 20000 if tier == "quick" else 400000
    per = {}
    for kind in ("lru", "plru"):
        for n in sizes[kind]:
            c = explore(kind, n, cap, viol)
            per["%s(%d)" % (kind, n)] = c
            total += c
    # long random histories for larger associativities
    rnd = random.Random(seed + 10)
    from architecture_simulator.uarch.memory.replacement_strategies import LRU, PLRU
    for _ in range(60 if tier == "quick" else 2000):
        kind = rnd.choice(["lru", "plru"])
        n = rnd.choice([3, 6, 8, 11, 16]) if kind == "lru" else rnd.choice([2, 4, 8, 16, 32])
        pol = LRU(n) if kind == "lru" else PLRU(n)
        ref = tuple(range(n)) if kind == "lru" else tuple([False] * (n - 1))
        hist = []
        for _ in range(200):
            i = rnd.choice([rnd.randrange(n), hist[-1] if hist else 0, hist[-2] if len(hist) > 1 else 0])
            pol.access(i)
            hist.append(i)
            ref = ref_lru_access(ref, i) if kind == "lru" else ref_plru_access(ref, n, i)
            want_v = ref[0] if kind == "lru" else ref_plru_victim(ref, n)
            want_r = [ref.index(b) for b in range(n)] if kind == "lru" else list(ref)
            total += 1
            if pol.get_next_to_replace() != want_v or list(pol.get_repr()) != want_r:
                if len(viol) < 5:
                    viol.append({"key": "C10:%s:%d:random-history" % (kind, n), "what": "%s(%d) after accesses %s: victim %s, repr %s; prescribed victim %s, repr %s" % (kind.upper(), n, hist, pol.get_next_to_replace(), list(pol.get_repr()), want_v, want_r), "policy": kind, "n": n, "history": list(hist)})
                break
    # the policies as the caches use them: interface-level histories on the real cache systems against a reference LRU /
    # tree-PLRU cache (bounded/cacheops.py); a hit/miss that disagrees is a wrong victim or a missed recency update
    from bounded import cacheops
    oe, ok_, ov = cacheops.run(tier, seed, "C10")
    total += oe
    for v in ov:
        v["sub"] = "cacheops"
        v["what"] = "replacement decisions of a cache differ from the reference policy: " + v["what"]
    viol = viol + ov
    return {"evaluations": total, "distinct_nontrivial": sum(per.values()), "violations": viol[:5], "reachable_states": per,
            "samples": [{"history": [0, 1, 0], "policy": "LRU(2)"}],
            "rule": "breadth-first exploration of every reachable (real object, reference policy state) pair, all accesses from each, for LRU n in %s and PLRU n in %s (cap %d states each); plus random histories of 200 accesses (with immediate and ping-pong repeats) for associativities up to 16 (LRU) / 32 (PLRU); non-trivial = distinct reachable states" % (sizes["lru"], sizes["plru"], cap),
            "bound": "exhaustive for the listed associativities; random beyond",
            "contract": "victim and get_repr equal the reference (LRU: oldest last access, never-accessed first in index order, ages = rank; PLRU: leaf reached by following the bits, bits = tree array); inspections leave the object unchanged; a second access in a row leaves the object unchanged"}


def replay(j):
    if j.get("sub") == "cacheops":
        from bounded import cacheops
        return cacheops.replay(j)
    from architecture_simulator.uarch.memory.replacement_strategies import LRU, PLRU
    n, kind = j["n"], j["policy"]
    pol = LRU(n) if kind == "lru" else PLRU(n)
    ref = tuple(range(n)) if kind == "lru" else tuple([False] * (n - 1))
    bad = False
    for i in j["history"]:
        k0 = key(pol)
        pol.access(i)
        ref = ref_lru_access(ref, i) if kind == "lru" else ref_plru_access(ref, n, i)
        want_v = ref[0] if kind == "lru" else ref_plru_victim(ref, n)
        want_r = [ref.index(b) for b in range(n)] if kind == "lru" else list(ref)
        if pol.get_next_to_replace() != want_v or list(pol.get_repr()) != want_r:
            bad = True
    print("history", j["history"], "victim", pol.get_next_to_replace(), "repr", pol.get_repr(), "reference", ref)
    print("recorded:", j.get("what"))
    if "second-access" in j.get("key", "") and j["history"]:
        import copy as _c
        q = _c.deepcopy(pol)
        q.access(j["history"][-1])
        bad = bad or policy_state(q) != policy_state(pol) or q.get_next_to_replace() != pol.get_next_to_replace()
    return not bad          # True = the contract holds now
