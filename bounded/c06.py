"""BOUNDED program-level cross-check for C06 (stands beside the per-step proof of contracts/toy.py, never counted as
proved): real ToySimulation runs of generated programs -- self-modifying ones in particular -- are compared after EVERY
step with the reference accumulator machine of spec/toy.py (written from the help page).  The per-step proof quantifies
over every state *the constructor can build and the harness can havoc*; a history-dependent defect kept in state the
harness does not know about (e.g. a cache of decoded instructions) is only visible over several steps -- this is what
this module is for."""
import random
from spec import toy as S

ADDR = ["STO", "LDA", "BRZ", "ADD", "SUB", "OR", "AND", "XOR"]
NOADDR = ["NOT", "INC", "DEC", "ZRO", "NOP"]
OPC = {m: i for i, m in enumerate(ADDR + NOADDR)}
STEP_BOUND = 80


def gen(rnd):
    n = rnd.randint(1, 7)
    # data words: encodings of instructions (so that LDA var ; STO <program address> rewrites the program) and constants
    nvar = rnd.randint(0, 3)
    variables = []
    for i in range(nvar):
        if rnd.random() < 0.7:
            m = rnd.choice(ADDR + NOADDR + ["NOP", "BRZ", "ZRO"])
            w = OPC[m] * 4096 + (rnd.randint(0, n) if m in ADDR else 0)
        else:
            w = rnd.choice([0, 1, 2, 65535, 0xD000 + rnd.randint(0, 4095), rnd.randint(0, 65535)])
        variables.append(("v%d" % i, w))
    lines = []
    for i in range(n):
        r = rnd.random()
        if r < 0.22:
            m = "STO"
        elif r < 0.40:
            m = "BRZ"
        elif r < 0.55:
            m = "LDA"
        elif r < 0.65:
            m = "ZRO"
        else:
            m = rnd.choice(ADDR + NOADDR)
        if m in ADDR:
            k = rnd.random()
            if k < 0.55:
                op = str(rnd.choice([rnd.randint(0, n - 1), n - 1, 0, rnd.randint(0, n)]))      # into / just behind the program
            elif k < 0.8 and variables:
                op = rnd.choice(variables)[0]
            else:
                op = rnd.choice(["100", "0xFFF", "0x800", str(n + 1)])
            lines.append("%s %s" % (m, op))
        else:
            lines.append(m)
    text = ""
    if variables:
        text += ".data\n" + "".join("%s: .word %d\n" % v for v in variables) + ".text\n"
    text += "\n".join(lines) + "\n"
    return text, n


def compare(text, n):
    """-> None or a description of the first disagreement"""
    from architecture_simulator.simulation.toy_simulation import ToySimulation
    sim = ToySimulation()
    sim.load_program(text)
    mem = {a: int(v) for a, v in sim.state.memory.memory_file.items()}
    max_pc = n - 1
    accu, f, count = 0, 0, 0
    selfmod = False
    revisit = set()
    for step in range(STEP_BOUND):
        halted = f > max_pc
        if sim.is_done() != halted:
            return "after %d steps: simulator done=%s, reference machine halted=%s (next instruction address %d, last instruction %d)" % (step, sim.is_done(), halted, f, max_pc), selfmod
        if halted:
            break
        word = mem.get(f, 0)
        a = S.addr(word)
        m = mem.get(a, 0)
        new_accu = S.step_accu(word, accu, m)
        if S.writes_mem(word):
            if a <= max_pc and mem.get(a, 0) != accu:
                selfmod = selfmod or a in revisit or True
            mem[a] = accu
        revisit.add(f)
        f = S.next_fetch(word, accu, f)
        accu = new_accu
        count += 1
        sim.step()
        got_mem = {a_: int(v) for a_, v in sim.state.memory.memory_file.items()}
        for a_ in set(got_mem) | set(mem):
            if got_mem.get(a_, 0) != mem.get(a_, 0):
                return "after %d steps: MEM[%d] = %d, reference machine %d" % (step + 1, a_, got_mem.get(a_, 0), mem.get(a_, 0)), selfmod
        if int(sim.state.accu) != accu:
            return "after %d steps: accu = %d, reference machine %d" % (step + 1, int(sim.state.accu), accu), selfmod
        if sim.state.address_of_next_instruction != f:
            return "after %d steps: next instruction at %d, reference machine %d" % (step + 1, sim.state.address_of_next_instruction, f), selfmod
        pm = sim.state.performance_metrics
        if pm.instruction_count != count or pm.cycles != 2 * count:
            return "after %d steps: instruction_count=%d cycles=%d, expected %d / %d" % (step + 1, pm.instruction_count, pm.cycles, count, 2 * count), selfmod
    return None, selfmod


def image(text, n):
    """memory image the assembler is expected to produce (C19: instruction i at i, variables downward from 4095) --
    used only to pre-select interesting programs; the comparison itself starts from the memory the simulator loaded"""
    mem, names, top = {}, {}, 4095
    lines = [l for l in text.splitlines() if l and not l.startswith(".")]
    for l in lines:
        if ":" in l:
            nm, rest = l.split(":")
            names[nm] = top
            mem[top] = int(rest.split()[1])
            top -= 1
    i = 0
    for l in lines:
        if ":" in l:
            continue
        parts = l.split()
        a = 0
        if len(parts) > 1:
            a = names[parts[1]] if parts[1] in names else int(parts[1], 0)
        mem[i] = OPC[parts[0]] * 4096 + a % 4096
        i += 1
    return mem


def classify(text, n):
    """reference machine only: does the run execute a program word again after it was executed once and then
    overwritten with a different value?  -> (reexecutes_modified, the last instruction is such a word)"""
    mem = image(text, n)
    max_pc = n - 1
    accu, f = 0, 0
    executed, dirty = set(), set()
    hit, hit_last = False, False
    for _ in range(STEP_BOUND):
        if f > max_pc:
            break
        if f in dirty:
            hit = True
            hit_last = hit_last or f == max_pc
        executed.add(f)
        word = mem.get(f, 0)
        a = S.addr(word)
        m = mem.get(a, 0)
        new_accu = S.step_accu(word, accu, m)
        if S.writes_mem(word):
            if a in executed and mem.get(a, 0) != accu:
                dirty.add(a)
            mem[a] = accu
        f = S.next_fetch(word, accu, f)
        accu = new_accu
    return hit, hit_last


def run(tier, seed):
    rnd = random.Random(seed + 6)
    evals, viol, samples = 0, [], []
    shapes = set()
    n_plain = 1500 if tier == "quick" else 30000
    n_cand = 120000 if tier == "quick" else 3000000
    cap_interesting = 1500 if tier == "quick" else 40000
    n_int, n_last = 0, 0
    for it in range(n_cand):
        text, n = gen(rnd)
        hit, hit_last = classify(text, n)
        if it >= n_plain and not hit:
            continue
        if hit and n_int >= cap_interesting and not hit_last:
            continue
        evals += 1
        bad, selfmod = compare(text, n)
        if hit:
            n_int += 1
            n_last += hit_last
            shapes.add((tuple(l.split()[0] for l in text.splitlines() if l and not l.startswith(".") and ":" not in l), hit_last))
        if bad and len(viol) < 5:
            viol.append({"key": "C06:" + bad[:60] + ":" + text.replace("\n", ";")[:60], "what": bad, "text": text, "n": n})
        elif not bad and hit_last and len(samples) < 2:
            samples.append({"text": text})
    return {"evaluations": evals, "distinct_nontrivial": len(shapes), "violations": viol, "samples": samples,
            "reexecuting_a_rewritten_instruction": n_int, "of_which_the_last_instruction": n_last, "candidates_screened": n_cand,
            "rule": "seeded random TOY programs of 1..7 instructions, operands biased into and just behind the program area, up to 3 data words holding instruction encodings (so that LDA/STO pairs rewrite instructions), BRZ/ZRO loops; %d plain samples plus every candidate that (on the reference machine) executes a program word again after it was executed once and then overwritten with a different value -- non-trivial = such a run; distinct by mnemonic sequence and whether the rewritten word is the last instruction" % n_plain,
            "bound": "<= 7 instructions, <= %d steps" % STEP_BOUND,
            "contract": "after every step: memory, accumulator, address of the next instruction, done <=> next address > last instruction, instruction_count, cycles = 2 x count -- equal to the reference machine spec/toy.py"}


def replay(j):
    bad, _ = compare(j["text"], j["n"])
    print("program:\n" + j["text"])
    print("now:", bad or "simulator and reference machine agree")
    return bad is None          # True = the contract holds now
