from bounded import asm_checks


def run(tier, seed):
    return asm_checks.run_c05(tier, seed)


def replay(j):
    return asm_checks.replay(j)
