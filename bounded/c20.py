"""BOUNDED history cross-check for C20 (beside the heap-equality proofs of contracts/toy.py, never counted as proved):
generated TOY programs (bounded/c06.py's generator, self-modifying ones included) are run once with whole steps and once
with a random mix of step / first+second / single+single / first+single / single+second per instruction, with invalid
calls injected (second before first, first twice, step in the middle of an instruction) and with every kind of call
repeated after the program is done.  At every instruction boundary the complete object graphs of the two simulations
(every field of simulation, state, memory, counters, visualisation values; timers excluded) and the memory-table /
register views are compared; a rejected call must raise StepSequenceError and change nothing."""
import random
from bounded import c06

TIMER = ("time", "timer", "_start", "_stop")


def dump(o, depth=0, seen=None):
    seen = seen if seen is not None else set()
    if isinstance(o, (int, str, bool, float)) or o is None:
        return int(o) if isinstance(o, int) and not isinstance(o, bool) else o
    if id(o) in seen or depth > 8:
        return "<cycle>"
    seen = seen | {id(o)}
    if isinstance(o, dict):
        return {repr(k): dump(v, depth + 1, seen) for k, v in sorted(o.items(), key=lambda kv: repr(kv[0]))}
    if isinstance(o, (list, tuple)):
        return [dump(v, depth + 1, seen) for v in o]
    if isinstance(o, type) or callable(o):
        return getattr(o, "__qualname__", repr(type(o)))
    if type(o).__name__.startswith(("UInt", "Int", "MutableUInt", "MutableInt")):
        return (type(o).__name__, int(o))
    import enum
    if isinstance(o, enum.Enum):
        return (type(o).__name__, o.name)
    d = getattr(o, "__dict__", None)
    if d is None:
        return repr(o)
    # attributes the package did not have when the contracts were written (pyvc/fields_baseline.json) are not compared:
    # what they hold is visible, if it matters, in the views and in how the run continues
    from pyvc import fields
    return (type(o).__name__, {k: dump(v, depth + 1, seen) for k, v in sorted(d.items()) if not any(t in k.lower() for t in TIMER) and k in fields.baseline()})


def view(sim):
    out = {"graph": dump(sim)}
    for name in ("get_memory_table_entries", "get_register_representations", "get_toy_svg_update_values"):
        f = getattr(sim, name, None)
        if f is not None:
            try:
                out[name] = dump(f())
            except Exception as e:
                out[name] = "raises " + type(e).__name__
    return out


def diff(a, b, path=""):
    if type(a) is not type(b):
        return path or "."
    if isinstance(a, dict):
        for k in sorted(set(a) | set(b)):
            if k not in a or k not in b:
                return path + "/" + str(k)
            d = diff(a[k], b[k], path + "/" + str(k))
            if d:
                return d
        return None
    if isinstance(a, (list, tuple)):
        if len(a) != len(b):
            return path + "[len]"
        for i, (x, y) in enumerate(zip(a, b)):
            d = diff(x, y, "%s[%d]" % (path, i))
            if d:
                return d
        return None
    return None if a == b else (path or ".")


def one(text, n, rnd):
    from architecture_simulator.simulation.toy_simulation import ToySimulation
    from architecture_simulator.simulation.runtime_errors import StepSequenceError
    A, B = ToySimulation(), ToySimulation()
    A.load_program(text)
    B.load_program(text)
    calls = []

    def rejected(sim, name):
        before = view(sim)
        try:
            getattr(sim, name)()
        except StepSequenceError:
            d = diff(before, view(sim))
            return ("rejected %s() changed %s" % (name, d)) if d else None
        return "%s() out of order was not rejected" % name
    for step in range(c06.STEP_BOUND):
        d = diff(view(A), view(B))
        if d:
            return "after %d instructions (%s): the two simulations differ at %s" % (step, ",".join(calls[-3:]), d), calls
        if A.is_done():
            before = view(B)
            for name in ("step", "first_cycle_step", "second_cycle_step", "single_step", "run"):
                getattr(B, name)()
                d = diff(before, view(B))
                if d:
                    return "%s() after the program is done changed %s" % (name, d), calls
            break
        A.step()
        mode = rnd.choice(["step", "first+second", "single+single", "first+single", "single+second"])
        calls.append(mode)
        if rnd.random() < 0.3:
            bad = rejected(B, "second_cycle_step")
            if bad:
                return "at an instruction boundary: " + bad, calls
        if mode == "step":
            r = B.step()
            if r != (not B.is_done()):
                return "step() returned %r although is_done() is %r" % (r, B.is_done()), calls
            continue
        first, second = mode.split("+")
        getattr(B, "first_cycle_step" if first == "first" else "single_step")()
        if rnd.random() < 0.5:
            view(B)          # the views are looked at in mid-instruction as well (a GUI redraws after every half cycle)
        if rnd.random() < 0.4:
            bad = rejected(B, rnd.choice(["first_cycle_step", "step"]))
            if bad:
                return "in the middle of an instruction: " + bad, calls
        getattr(B, "second_cycle_step" if second == "second" else "single_step")()
    return None, calls


def run(tier, seed):
    rnd = random.Random(seed + 20)
    evals, viol = 0, []
    shapes = set()
    for _ in range(700 if tier == "quick" else 12000):
        text, n = c06.gen(rnd)
        s2 = rnd.getrandbits(32)
        bad, calls = one(text, n, random.Random(s2))
        evals += 1
        if len(set(calls)) >= 3:
            shapes.add(tuple(calls[:6]))
        if bad and len(viol) < 5:
            viol.append({"key": "C20:" + bad[:80], "what": bad, "text": text, "n": n, "seed2": s2})
    return {"evaluations": evals, "distinct_nontrivial": len(shapes), "violations": viol, "samples": [{"text": "INC\nSTO 0\n", "calls": "first+single, single+second"}],
            "rule": "seeded random TOY programs (generator of bounded/c06.py) x a random call mix per instruction with injected out-of-order calls and calls after done; non-trivial = runs using at least three different call mixes; distinct by the first six mixes",
            "bound": "<= 7 instructions, <= %d steps" % c06.STEP_BOUND,
            "contract": "complete object graph (timers excluded), memory table and register views equal at every instruction boundary; out-of-order calls raise StepSequenceError and change nothing; every call is a no-op once done; step() returns not is_done()"}


def replay(j):
    bad, calls = one(j["text"], j["n"], random.Random(j["seed2"]))
    print("program:\n" + j["text"])
    print("now:", bad or "all call mixes agree")
    print("recorded:", j.get("what"))
    return bad is None          # True = the contract holds now
