from bounded import pipeline


def run(tier, seed):
    return pipeline.run_c08(tier, seed)


def replay(j):
    return pipeline.replay(j)
