"""BOUNDED program-level cross-checks of the cache properties (C03, C09, C11, C12, C17) on the real simulator:
random programs x random cache configurations x both pipeline modes, against the uncached run, a reference
tag-only cache fed the logged access sequence, and a byte-map reference memory.  Never counted as proved."""
import random
from fixedint import UInt32
from bounded.progs import *
from architecture_simulator.uarch.memory.cache import CacheOptions
from architecture_simulator.util.integer_representations import get_32_bit_representations


class RefCache:
    """tag-only set-associative cache with LRU / tree-PLRU, written from the documentation"""

    def __init__(self, ib, bb, assoc, pol):
        self.ib, self.bb, self.assoc, self.pol = ib, bb, assoc, pol
        self.tags = [[None] * assoc for _ in range(2 ** ib)]
        self.last = [[-(assoc - w) for w in range(assoc)] for _ in range(2 ** ib)]     # LRU: never used = oldest, index order
        self.bits = [[False] * max(assoc - 1, 0) for _ in range(2 ** ib)]
        self.now = 0
        self.hits = self.accesses = 0

    def _touch(self, s, w):
        self.now += 1
        self.last[s][w] = self.now
        pos = w + self.assoc - 1
        while pos > 0:
            parent = (pos - 1) // 2
            self.bits[s][parent] = (pos == 2 * parent + 1)      # point away from the accessed leaf
            pos = parent

    def _victim(self, s):
        if self.pol == "lru":
            return min(range(self.assoc), key=lambda w: self.last[s][w])
        pos = 0
        while pos < self.assoc - 1:
            pos = 2 * pos + 2 if self.bits[s][pos] else 2 * pos + 1
        return pos - (self.assoc - 1)

    def access(self, addr, allocate=True, counted=True):
        a = addr % 2 ** 32
        s = (a >> (self.bb + 2)) % 2 ** self.ib
        t = a >> (self.ib + self.bb + 2)
        hit = t in self.tags[s]
        if hit:
            self._touch(s, self.tags[s].index(t))
        elif allocate:
            w = self._victim(s)
            self.tags[s][w] = t
            self._touch(s, w)
        if counted:
            self.accesses += 1
            self.hits += int(hit)
        return hit

    def resident(self, addr):
        a = addr % 2 ** 32
        return (a >> (self.ib + self.bb + 2)) in self.tags[(a >> (self.bb + 2)) % 2 ** self.ib]


class LogMem:
    """delegating wrapper that logs counted data accesses of an (uncached) run"""

    def __init__(self, inner):
        self.inner = inner
        self.log = []
        self.crossing = False

    def __getattr__(self, n):
        return getattr(self.inner, n)

    def read_byte(self, a, update_statistics=True):
        if update_statistics:
            self.log.append((a, False))
            self.crossing = self.crossing or (a % 4) + 1 > 4
        return self.inner.read_byte(a, update_statistics)

    def read_halfword(self, a, update_statistics=True):
        if update_statistics:
            self.log.append((a, False))
            self.crossing = self.crossing or (a % 4) + 2 > 4
        return self.inner.read_halfword(a, update_statistics)

    def read_word(self, a, update_statistics=True):
        if update_statistics:
            self.log.append((a, False))
            self.crossing = self.crossing or (a % 4) + 4 > 4
        return self.inner.read_word(a, update_statistics)

    def write_byte(self, a, v, directly_write_to_lower_memory=False):
        if not directly_write_to_lower_memory:
            self.log.append((a, True))
            self.crossing = self.crossing or (a % 4) + 1 > 4
        return self.inner.write_byte(a, v, directly_write_to_lower_memory)

    def write_halfword(self, a, v, directly_write_to_lower_memory=False):
        if not directly_write_to_lower_memory:
            self.log.append((a, True))
            self.crossing = self.crossing or (a % 4) + 2 > 4
        return self.inner.write_halfword(a, v, directly_write_to_lower_memory)

    def write_word(self, a, v, directly_write_to_lower_memory=False):
        if not directly_write_to_lower_memory:
            self.log.append((a, True))
            self.crossing = self.crossing or (a % 4) + 4 > 4
        return self.inner.write_word(a, v, directly_write_to_lower_memory)


def logical_view(ms):
    """byte map of the logical data memory of a cached memory system, read off its blocks and backing store (no reads through the cache)"""
    out = {a: int(v) for a, v in ms.memory.memory_file.items()}
    for cs in ms.cache.sets:
        for b in cs.blocks:
            if b.valid_bit:
                base = b.decoded_address.block_alinged_address
                for i, wv in enumerate(b.values):
                    for k in range(4):
                        out[base + 4 * i + k] = (int(wv) >> (8 * k)) & 255
    return {a: v for a, v in out.items()}


def nz(d):
    return {a: v for a, v in d.items() if v}


def rand_cfg(rnd):
    pol = rnd.choice(["lru", "plru"])
    assoc = rnd.choice([1, 2, 4]) if pol == "plru" else rnd.choice([1, 2, 3, 4])
    return (rnd.randint(0, 2), rnd.randint(0, 2), assoc, rnd.choice(["wb", "wt"]), pol, rnd.choice([0, 1, 5]))


def safe(prog):
    """programs of the cache claims use word-contained accesses: the alphabet of bounded/progs only has such"""
    return True


def run_all(tier, seed, focus):
    rnd = random.Random(seed + 300 + sum(map(ord, focus)))
    evals, seen, viol, samples = 0, set(), [], []
    n = 2000 if tier == "quick" else 40000

    def bad(key, what, prog, regs, cfg):
        if len(viol) < 5:
            viol.append({"key": "%s:%s:%s" % (focus, key, "/".join(str(p) for p in prog)[:80]), "what": what, "program": [str(p) for p in prog],
                         "regs": regs, "config": cfg})
    for it in range(n):
        prog = random_program(rnd, rnd.randint(2, 14))
        regs = initial_regs(rnd)
        cfg = rand_cfg(rnd)
        ib, bb, assoc, kind, pol, pen = cfg
        icfg = (rnd.randint(0, 2), rnd.randint(0, 2), rnd.choice([1, 2, 4]), "wb", rnd.choice(["lru", "plru"]), rnd.choice([0, 2]))
        d = CacheOptions(True, ib, bb, assoc, kind, pol, pen)
        ic = CacheOptions(True, icfg[0], icfg[1], icfg[2], "wb", icfg[4], icfg[5])
        # uncached single-cycle reference run with access log
        a = make_sim(prog, regs, "single_stage_pipeline")
        a.state.memory = LogMem(a.state.memory)
        trace, addrs, fa, steps = single_cycle_trace(a, 150)
        if steps >= 150:
            continue
        log = a.state.memory.log
        if a.state.memory.crossing:
            continue          # the cache claims are about programs whose accesses stay within one word
        A = arch(a)
        A["mem"] = {k: int(v) for k, v in a.state.memory.inner.memory_file.items()}
        results = {}
        for mode in ("single_stage_pipeline", "five_stage_pipeline"):
            b = make_sim(prog, regs, mode, True, dcache=d if focus != "C11" else None, icache=ic if focus in ("C11",) else None)
            fb = None
            n_steps = 0
            try:
                while not b.is_done() and n_steps < 3000:
                    b.step()
                    n_steps += 1
                    if focus == "C12" and b.state.memory is not None:
                        ms = b.state.memory
                        lv, back = nz(logical_view(ms)), nz({x: int(v) for x, v in ms.memory.memory_file.items()})
                        if kind == "wt" and lv != back:
                            bad("wt-backing-current", "write-through: backing memory differs from logical contents after step %d" % n_steps, prog, regs, cfg)
                            break
                        if kind == "wb":
                            ref_res = [x for x in set(lv) | set(back) if lv.get(x, 0) != back.get(x, 0) and not any(
                                bl.valid_bit and bl.decoded_address.block_alinged_address <= x < bl.decoded_address.block_alinged_address + 4 * len(bl.values)
                                for cs in ms.cache.sets for bl in cs.blocks)]
                            if ref_res:
                                bad("wb-lag-only-resident", "write-back: backing differs from logical at non-resident address 0x%X after step %d" % (ref_res[0], n_steps), prog, regs, cfg)
                                break
            except Exception as e:
                fb = e
            evals += 1
            B = arch(b)
            results[mode] = b
            key = (cfg[:5] if focus != "C11" else icfg[:5], mode, bool(fa))
            if focus in ("C03", "C12"):
                st = b.state.memory
                if st.hits < st.accesses and st.hits > 0:
                    seen.add(key)
                if (fa is None) != (fb is None):
                    bad("fault", "%s: fault %r with cache, %r without" % (mode, type(fb).__name__ if fb else None, type(fa).__name__ if fa else None), prog, regs, cfg)
                elif B["regs"] != A["regs"] or B["output"] != A["output"] or B["exit"] != A["exit"]:
                    bad("transparency", "%s: registers/output/exit differ from the uncached run" % mode, prog, regs, cfg)
                elif nz(logical_view(st)) != nz(A["mem"]):
                    bad("logical-memory", "%s: logical data memory differs from the uncached run" % mode, prog, regs, cfg)
            if focus == "C09" and fa is None and fb is None:
                st = b.state.memory
                ref = RefCache(ib, bb, assoc, pol)
                last = False
                for (ad, wr) in log:
                    last = ref.access(ad, allocate=(kind == "wb" or not wr))
                if st.hits < st.accesses and st.hits > 0:
                    seen.add(key)
                if (st.accesses, st.hits) != (ref.accesses, ref.hits) or (log and st.last_was_hit != last):
                    bad("counters", "%s: (hits, accesses, last) = (%d, %d, %s), reference cache (%d, %d, %s)" % (mode, st.hits, st.accesses, st.last_was_hit, ref.hits, ref.accesses, last), prog, regs, cfg)
                n_mem = sum(1 for x in trace if False) or len(log)
                if st.accesses != n_mem:
                    bad("once-per-access", "%s: %d counted accesses for %d executed loads/stores" % (mode, st.accesses, n_mem), prog, regs, cfg)
                if mode == "single_stage_pipeline":
                    want_cycles = len(trace) + pen * (ref.accesses - ref.hits)
                    if b.state.performance_metrics.cycles != want_cycles:
                        bad("penalty", "single-cycle: %d cycles, expected %d instructions + %d misses x %d" % (b.state.performance_metrics.cycles, len(trace), ref.accesses - ref.hits, pen), prog, regs, cfg)
            if focus == "C11" and fa is None and fb is None:
                im = b.state.instruction_memory
                if im.hits < im.accesses and im.hits > 0:
                    seen.add(key)
                if B["regs"] != A["regs"] or B["output"] != A["output"] or B["exit"] != A["exit"] or B["icount"] != A["icount"]:
                    bad("transparency", "%s: results differ with the instruction cache" % mode, prog, regs, icfg)
                if mode == "single_stage_pipeline":
                    ref = RefCache(icfg[0], icfg[1], icfg[2], icfg[4])
                    for ad in addrs:
                        ref.access(ad)
                    if (im.accesses, im.hits) != (ref.accesses, ref.hits) or im.accesses != len(trace):
                        bad("fetch-accounting", "single-cycle: icache (hits, accesses) = (%d, %d), reference (%d, %d), %d instructions executed" % (im.hits, im.accesses, ref.hits, ref.accesses, len(trace)), prog, regs, icfg)
                    if b.state.performance_metrics.cycles != len(trace) + icfg[5] * (ref.accesses - ref.hits):
                        bad("fetch-penalty", "single-cycle: cycles %d, expected %d + %d x %d" % (b.state.performance_metrics.cycles, len(trace), ref.accesses - ref.hits, icfg[5]), prog, regs, icfg)
            if focus == "C17" and fb is None:
                tbl = b.get_data_memory_entries()
                back = {x: int(v) for x, v in b.state.memory.memory.memory_file.items()}
                words = sorted({x - x % 4 for x in back})
                want = [((w, "0x" + "{:08X}".format(w)), get_32_bit_representations(sum(back.get(w + k, 0) << (8 * k) for k in range(4)))) for w in words]
                if len(words) > 2:
                    seen.add((len(words) > 6, mode, kind))
                if [tuple(x[0]) for x in tbl] != [x[0] for x in want] or [tuple(x[1]) for x in tbl] != [tuple(x[1]) for x in want]:
                    bad("memory-table", "%s: data-memory table is not exactly the written words of the backing store in ascending order" % mode, prog, regs, cfg)
        if focus == "C09" and fa is None and all(m in results for m in ("single_stage_pipeline", "five_stage_pipeline")):
            s1, s5 = results["single_stage_pipeline"].state.memory, results["five_stage_pipeline"].state.memory
            if not isinstance(s5.hits, int) or (s1.hits, s1.accesses) != (s5.hits, s5.accesses):
                try:
                    done5 = results["five_stage_pipeline"].is_done()
                except Exception:
                    done5 = False
                if done5:
                    bad("both-modes", "data-cache counters differ between modes: single-cycle (%d, %d), five-stage (%d, %d)" % (s1.hits, s1.accesses, s5.hits, s5.accesses), prog, regs, cfg)
        if len(samples) < 2 and it % 50 == 7:
            samples.append({"program": [str(p) for p in prog], "config": cfg if focus != "C11" else icfg})
    rule = {
        "C03": "random programs (2..14 instructions, alphabet of bounded/progs: aligned loads/stores of all widths, branches, jumps, ecalls, faults) x random data-cache configurations (index bits 0..2, block bits 0..2, associativity 1..4, wb/wt, lru/plru, penalty) x both modes vs the uncached single-cycle run; non-trivial = run with both hits and misses; distinct by (configuration, mode, faulting?)",
        "C09": "same scope; counters vs a reference tag-only cache fed the logged access sequence of the uncached run; both modes equal; accesses == executed loads/stores; single-cycle cycles == instructions + misses x penalty; and after load_program of generated programs with data segments of every declaration kind the counters, the cycle counter and the cache are untouched",
        "C11": "same programs with random instruction-cache configurations; results unchanged; single-cycle fetch accounting vs the reference cache fed the executed addresses",
        "C12": "same scope; after EVERY step: write-through backing == logical contents; write-back backing differs only at resident addresses (views read off the blocks, no reads through the cache)",
        "C17": "same scope; the data-memory table equals the written words of the backing store in ascending order with the four representations of their current values; plus assembled programs that also load from never-written addresses, in both modes, uncached: the table lists exactly the declared and stored words (known from the program text)",
    }[focus]
    if focus == "C09":
        # parser preloads leave the counters untouched: after load_program of a program with a data segment of every
        # kind of declaration, a simulation with a data cache has made no counted access, charged no cycle, holds no
        # block -- and the data is in the backing store
        from bounded import asm
        from architecture_simulator.simulation.riscv_simulation import RiscvSimulation
        for it in range(150 if tier == "quick" else 5000):
            cfg = rand_cfg(rnd)
            ib, bb, assoc, kind, pol, pen = cfg
            prog = asm.gen_program(rnd, 6, with_data=rnd.randint(1, 5))
            text = asm.render(prog, rnd, plain=True)
            mode = rnd.choice(["single_stage_pipeline", "five_stage_pipeline"])
            sim = RiscvSimulation(mode=mode, data_cache=CacheOptions(True, ib, bb, assoc, kind, pol, max(pen, 1)))
            try:
                sim.load_program(text)
            except Exception:
                continue
            evals += 1
            ms = sim.state.memory
            resident = sum(1 for cs in ms.cache.sets for bl in cs.blocks if bl.valid_bit)
            if (ms.hits, ms.accesses, ms.last_was_hit, sim.state.performance_metrics.cycles, resident) != (0, 0, False, 0, 0):
                if len(viol) < 5:
                    viol.append({"key": "C09:preload:" + str(cfg), "what": "after load_program (no instruction executed): hits=%d accesses=%d last_was_hit=%s cycles=%d resident blocks=%d; the assembler's preload must leave all of them at 0 / False" % (
                        ms.hits, ms.accesses, ms.last_was_hit, sim.state.performance_metrics.cycles, resident), "text": text, "config": list(cfg), "mode": mode, "sub": "preload"})
    if focus == "C17":
        # assembled programs (so the memory has been through load_program's reset) that also LOAD from addresses nothing
        # was ever written to: the table lists exactly the words that hold a written byte -- the data segment and the
        # targets of the executed stores, known here from the program itself, not from the simulator's store
        from architecture_simulator.simulation.riscv_simulation import RiscvSimulation
        for it in range(40 if tier == "quick" else 600):
            text, want_words = _table_program(rnd)
            for mode in ("single_stage_pipeline", "five_stage_pipeline"):
                # (uncached only: behind a cache the backing store is also written by block write-backs, whole blocks at a
                #  time, so "the words that hold a written byte" is no longer a function of the program text alone; the
                #  cached runs above compare the table with the backing store itself)
                for cfg in (None,):
                    kw = {"mode": mode}
                    if cfg is not None:
                        kw["data_cache"] = CacheOptions(True, cfg[0], cfg[1], cfg[2], cfg[3], cfg[4], cfg[5])
                    evals += 1
                    what = _table_check(RiscvSimulation(**kw), text, want_words)
                    seen.add(("table-after-loads", mode, cfg is not None))
                    if what and len(viol) < 5:
                        viol.append({"key": "C17:table-rows:" + what[:60], "what": what, "text": text, "want_words": want_words, "mode": mode, "config": list(cfg) if cfg else None, "sub": "table"})
    ops_info = None
    if focus in ("C03", "C09", "C12"):
        from bounded import cacheops
        oe, ok_, ov = cacheops.run(tier, seed, focus)
        evals += oe
        viol = (viol + ov)[:8]
        ops_info = {"operations": oe, "configurations": ok_,
                    "rule": "interface-level histories (bounded/cacheops.py): 40 random reads/writes of all widths per history on the real cache systems over random small geometries, at set-conflicting, neighbouring and aliased addresses, checked after every operation against a reference byte map, a reference tag-only cache and the C12 relations"}
    return {"evaluations": evals, "distinct_nontrivial": len(seen), "violations": viol, "samples": samples or [{"note": "none sampled"}], "rule": rule,
            "interface_histories": ops_info,
            "bound": "programs <= 14 instructions, <= 150 single-cycle steps; interface histories of 40 operations", "contract": "program-level clause of " + focus}


def _table_program(rnd):
    """-> (program text, {word address: value} of every word the table must list)"""
    base = 2 ** 14
    vals = [rnd.randint(1, 2 ** 32 - 1) for _ in range(rnd.randint(1, 3))]
    far = base + 0x1000 + 4 * rnd.randint(0, 60)        # a region nothing is declared in
    st_off, ld_offs = 4 * rnd.randint(0, 15), [4 * rnd.randint(16, 40) for _ in range(rnd.randint(1, 3))]
    lines = [".data", "v: .word " + ", ".join(str(v) for v in vals), ".text", "lw x5, v", "li x6, %d" % far]
    for k, o in enumerate(ld_offs):
        lines.append("%s x%d, %d(x6)" % (rnd.choice(["lw", "lb", "lhu"]), 7 + k, o))      # loads from never-written words
    lines.append("sw x5, %d(x6)" % st_off)
    lines.append("lw x12, %d(x6)" % st_off)
    want = {base + 4 * i: v for i, v in enumerate(vals)}
    want[far + st_off] = vals[0]
    return "\n".join(lines), want


def _table_check(sim, text, want_words):
    try:
        sim.load_program(text)
        sim.run()
        tbl = sim.get_data_memory_entries()
    except Exception as e:
        return "raises %s: %s" % (type(e).__name__, str(e)[:80])
    got = [(int(x[0][0]), tuple(x[1])) for x in tbl]
    want = [(w, tuple(get_32_bit_representations(want_words[w]))) for w in sorted(want_words)]
    if [g[0] for g in got] != [w[0] for w in want]:
        return "data-memory table lists the words %s, written were %s" % ([hex(g[0]) for g in got][:8], [hex(w[0]) for w in want][:8])
    if got != want:
        return "data-memory table shows other values than the written ones"
    return None


def replay(j):
    if j.get("sub") == "table":
        from architecture_simulator.simulation.riscv_simulation import RiscvSimulation
        kw = {"mode": j["mode"]}
        if j.get("config"):
            c = j["config"]
            kw["data_cache"] = CacheOptions(True, c[0], c[1], c[2], c[3], c[4], c[5])
        what = _table_check(RiscvSimulation(**kw), j["text"], {int(k): v for k, v in j["want_words"].items()})
        print(j["text"], "->", what or "table lists exactly the written words", "| recorded:", j.get("what"))
        return what is None
    if j.get("sub") == "preload":
        from architecture_simulator.simulation.riscv_simulation import RiscvSimulation
        c = j["config"]
        sim = RiscvSimulation(mode=j["mode"], data_cache=CacheOptions(True, c[0], c[1], c[2], c[3], c[4], max(c[5], 1)))
        sim.load_program(j["text"])
        ms = sim.state.memory
        got = (ms.hits, ms.accesses, ms.last_was_hit, sim.state.performance_metrics.cycles)
        print("after load_program: (hits, accesses, last_was_hit, cycles) =", got, "recorded:", j.get("what"))
        return got == (0, 0, False, 0)
    if j.get("sub") == "cacheops":
        from bounded import cacheops
        return cacheops.replay(j)
    print("program:", j.get("program"), "config:", j.get("config"), "recorded:", j.get("what"))
    return False
