from bounded import cacheprog


def run(tier, seed):
    return cacheprog.run_all(tier, seed, "C11")


def replay(j):
    return cacheprog.replay(j)
