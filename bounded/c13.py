"""BOUNDED run-time contract for the reload clause of C13 through the real assemblers: after any history of <= 3
earlier loads (successful, failing late, data-only, empty) into a simulation that has not started, loading program P
gives the same state -- and the same run -- as loading P into a fresh simulation."""
import itertools
import random
from pyvc import api
from architecture_simulator.simulation.riscv_simulation import RiscvSimulation
from architecture_simulator.simulation.toy_simulation import ToySimulation
from architecture_simulator.uarch.memory.cache import CacheOptions
from bounded.asm import gen_program, render

TIMER = ("_start", "_execution_time_s")
HIST = [
    ".data\na: .word 0xDEADBEEF, 2, 3\nb: .byte 1,2,3,4,5\n.text\nlw x1, a\naddi x2, x1, 1",
    ".data\nq: .word 0x11223344, 0x55667788, 9\n.text\nlw x1, q\njal x0, nowhere",          # fails late: data already written
    ".data\nz: .word 0x0BADF00D, 0x0BADF00D, 0x0BADF00D, 0x0BADF00D",                       # data only
    "",
    "addi x1, x0, 5\nthis is not assembly",
    "li x5, 100000\nl: beq x0, x0, l",
    ".data\nh: .half 1, 0x8002, 3\ns: .string \"abc\"\nb: .byte 7\n.text\nlh x1, h\nlb x2, s[1]",         # every width of preload
]
TARGETS = [
    ".data\nv: .byte 1\nw: .half 7\n.text\nlw x1, v\nlw x2, w\nla x3, w[1]\naddi x4, x1, 1",
    "addi x1, x0, 1\naddi x2, x1, 1",
    "",
    ".data\ns: .string \"hi\"\n.text\nlb x5, s[1]\nli a7, 93\nli a0, 3\necall",
]


def opts(tier):
    yield {}
    yield {"mode": "five_stage_pipeline"}
    d = CacheOptions(True, 1, 1, 2, "wb", "lru", 2)
    i = CacheOptions(True, 1, 0, 2, "wb", "plru", 3)
    yield {"data_cache": d, "instruction_cache": i}
    yield {"data_cache": CacheOptions(True, 0, 1, 2, "wt", "plru", 1)}
    if tier == "thorough":
        yield {"mode": "five_stage_pipeline", "data_cache": CacheOptions(True, 0, 1, 2, "wt", "plru", 1), "instruction_cache": i}


def run_to_end(sim):
    try:
        n = 0
        while not sim.is_done() and n < 300:
            sim.step()
            n += 1
        return None
    except Exception as e:
        return type(e).__name__


def _probe(sim):
    try:
        if sim.is_done():
            sim.step()
            sim.run()
            sim.is_done()
    except Exception:
        pass


def run(tier, seed):
    rnd = random.Random(seed + 13)
    evals, seen, viol, samples = 0, set(), [], []
    hist_sets = list(itertools.chain.from_iterable(itertools.permutations(range(len(HIST)), k) for k in (0, 1, 2)))
    if tier == "thorough":
        triples = list(itertools.permutations(range(len(HIST)), 3))
        hist_sets += random.Random(seed).sample(triples, 70)          # (a seeded sample of the 210 ordered triples)
    targets = list(TARGETS) + [render(gen_program(rnd, 12), random.Random(rnd.getrandbits(32))) for _ in range(6 if tier == "quick" else 60)]
    for kw in opts(tier):
        for hs in hist_sets:
            for ti, target in enumerate(targets):
                if tier == "quick" and len(hs) == 2 and (hs[0] + hs[1] + ti) % 3:
                    continue
                for probe in (False, True):
                    if probe and len(hs) == 2 and (hs[0] + ti) % 2:
                        continue
                    sim = RiscvSimulation(**kw)
                    # probe: lifecycle calls on the simulation while it has not started -- is_done() anywhere, step()/run()
                    # where it reports done (no instructions yet / empty or failed load), which by the property's first
                    # clause change nothing and leave it not started
                    if probe:
                        _probe(sim)
                    for h in hs:
                        try:
                            sim.load_program(HIST[h])
                        except Exception:
                            pass
                        if probe:
                            _probe(sim)
                    if sim.has_started:
                        continue
                    fresh = RiscvSimulation(**kw)
                    ra = rb = None
                    try:
                        sim.load_program(target)
                    except Exception as e:
                        ra = type(e).__name__
                    try:
                        fresh.load_program(target)
                    except Exception as e:
                        rb = type(e).__name__
                    evals += 1
                    if hs:
                        seen.add((hs, ti if ti < len(TARGETS) else "rand", tuple(sorted(kw))))
                    bad = None
                    if ra != rb:
                        bad = "load outcome %s vs fresh %s" % (ra, rb)
                    elif not api.same(api.snapshot(sim, ignore=TIMER), api.snapshot(fresh, ignore=TIMER)):
                        out = []
                        api._diff(("tuple", list(api.snapshot(sim, ignore=TIMER).tree)), ("tuple", list(api.snapshot(fresh, ignore=TIMER).tree)), "", out)
                        bad = "state after reload differs from a fresh load at " + ", ".join(out[:3])
                    elif ra is None:
                        ea, eb = run_to_end(sim), run_to_end(fresh)
                        if ea != eb or not api.same(api.snapshot(sim, ignore=TIMER), api.snapshot(fresh, ignore=TIMER)):
                            bad = "run after reload differs from run after a fresh load"
                    if bad and len(viol) < 5:
                        viol.append({"key": "C13:reload:" + bad[:60], "what": bad, "history": [HIST[h] for h in hs], "text": target, "options": sorted(kw), "probe": probe})
                    elif not bad and hs and len(samples) < 2:
                        samples.append({"history": [HIST[h][:40] for h in hs], "then": target[:60]})
    # TOY
    for hs in itertools.chain.from_iterable(itertools.permutations(["LDA 5\nINC", ".data\nv: .word 7\n.text\nLDA v\nBRZ nowhere", "", "garbage here"], k) for k in (0, 1, 2)):
        for target in ("LDA x\nINC\nSTO x\n.data\nx: .word 41", "", "loop: INC\nBRZ loop"):
            a, b = ToySimulation(), ToySimulation()
            for h in hs:
                try:
                    a.load_program(h)
                except Exception:
                    pass
            for s in (a, b):
                try:
                    s.load_program(target)
                except Exception:
                    pass
            evals += 1
            if hs:
                seen.add(("toy", hs, target))
            if not api.same(api.snapshot(a, ignore=TIMER), api.snapshot(b, ignore=TIMER)) and len(viol) < 6:
                viol.append({"key": "C13:toy-reload", "what": "TOY state after reload differs from a fresh load", "history": list(hs), "text": target})
    return {"evaluations": evals, "distinct_nontrivial": len(seen), "violations": viol, "samples": samples or [{"history": [], "then": ""}],
            "rule": "load histories: all sequences of <= 2 (thorough: plus a seeded sample of 70 ordered triples) earlier loads from {successful with data, failing late after data was written, data only, empty, syntax error, expanding pseudo + loop} followed by a target program (4 fixed + random grammar-derived), in single-cycle, five-stage and cached configurations, and for TOY; the reloaded simulation and a fresh one are compared by whole-heap snapshot after the load and after running to the end; non-trivial = non-empty history",
            "bound": "<= 3 earlier loads", "contract": "state(load(P) after history) == state(load(P) on fresh simulation), also after running"}


def replay(j):
    """re-evaluates the recorded history on the current tree (default options; the cached configurations of the run are
    named in the file but not rebuilt here)"""
    sim = RiscvSimulation(**({"mode": "five_stage_pipeline"} if "mode" in j.get("options", []) else {}))
    if j.get("probe"):
        _probe(sim)
    for h in j.get("history", []):
        try:
            sim.load_program(h)
        except Exception:
            pass
        if j.get("probe"):
            _probe(sim)
    fresh = RiscvSimulation(**({"mode": "five_stage_pipeline"} if "mode" in j.get("options", []) else {}))
    for s in (sim, fresh):
        try:
            s.load_program(j["text"])
        except Exception:
            pass
    ok = api.same(api.snapshot(sim, ignore=TIMER), api.snapshot(fresh, ignore=TIMER))
    if ok:
        ea, eb = run_to_end(sim), run_to_end(fresh)
        ok = ea == eb and api.same(api.snapshot(sim, ignore=TIMER), api.snapshot(fresh, ignore=TIMER))
    print("history:", j.get("history"), "probe:", j.get("probe"), "target:", j["text"], "->", "same as fresh" if ok else "DIFFERS from a fresh load")
    return ok
