"""BOUNDED run-time contracts on the real pipeline for arbitrary programs (C02 U2.10, C07, C08).
Never counted as proved.  Scope: exhaustive over all programs of length <= L from a reduced alphabet, plus seeded
random programs of length <= 12 from the full alphabet (bounded/progs.py), several initial register files."""
import itertools
import random
import time
from bounded.progs import *
from spec.sched import schedule
from spec import rv32im as S
from architecture_simulator.isa.riscv import rv32i_instructions as I

SMALL = [
    lambda: I.ADD(1, 1, 2), lambda: I.ADDI(2, 1, 1), lambda: I.LW(1, 3, 0), lambda: I.SW(3, 1, 4), lambda: I.BEQ(1, 0, 8),
    lambda: I.BNE(1, 2, -4), lambda: I.JAL(1, 8, 0), lambda: I.JALR(0, 2, 0), lambda: I.ECALL(), lambda: I.LW(2, 0, 0), lambda: I.MUL(2, 2, 1),
]


def nontrivial_key(b):
    pm = b.state.performance_metrics
    return (min(pm.stalls, 3), min(pm.flushes, 3))


def check_equivalence(prog, regs, out, detect=True):
    a = make_sim(prog, regs, "single_stage_pipeline")
    trace, addrs, fa, steps = single_cycle_trace(a, 120)
    if steps >= 120:
        return None          # does not terminate within the bound in single-cycle mode: outside the claim checked here
    b = make_sim(prog, regs, "five_stage_pipeline", detect)
    retired, fb, cycles = five_stage_run(b, 1500)
    key = None
    A, B = arch(a), arch(b)
    if (fa is None) != (fb is None):
        key = "fault-mismatch"
    elif fa is not None:
        if fa.address != fb.address or fa.instruction_repr != fb.instruction_repr:
            key = "fault-address"
        elif A["regs"] != B["regs"] or A["mem"] != B["mem"] or A["output"] != B["output"]:
            key = "state-at-fault"
    else:
        if not b.is_done():
            key = "five-stage-does-not-terminate"
        elif [x for x, _ in retired] != addrs:
            key = "retired-order"
        else:
            for f in ("regs", "mem", "output", "exit", "icount", "bcount", "pcount"):
                if A[f] != B[f]:
                    key = "final-" + f
                    break
    return key, a, b, trace, addrs, retired, cycles, fa


def describe(prog, regs):
    return {"program": [str(p) for p in prog], "x1..x3": regs[1:4], "a0": regs[10], "a7": regs[17]}


def programs(tier, seed):
    rnd = random.Random(seed + 1)
    L = 3 if tier == "quick" else 4
    regsets = [initial_regs(random.Random(s)) for s in (1, 2)] if tier == "quick" else [initial_regs(random.Random(s)) for s in (1, 2, 3, 4)]
    for n in range(1, L + 1):
        for combo in itertools.product(range(len(SMALL)), repeat=n):
            for regs in regsets:
                yield [SMALL[i]() for i in combo], regs
    for _ in range(1500 if tier == "quick" else 40000):
        yield random_program(rnd, rnd.randint(2, 12)), initial_regs(rnd)
    # ecall-dense programs: several (printing) ecalls per run, directly behind taken / untaken transfers, behind RAW
    # stalls that produce their argument, inside count-down loops -- the situations in which the pipeline holds,
    # squashes and releases ecalls repeatedly within one run
    E = [lambda: I.ECALL(), lambda: I.ECALL(), lambda: I.BEQ(0, 0, 8), lambda: I.BNE(1, 0, -8), lambda: I.BNE(1, 0, -12), lambda: I.BEQ(1, 0, 8),
         lambda: I.JAL(0, 8, 0), lambda: I.ADDI(1, 1, -1), lambda: I.ADDI(1, 0, 2), lambda: I.ADD(10, 1, 2), lambda: I.ADDI(10, 10, 1),
         lambda: I.ADD(2, 1, 1), lambda: I.ADDI(0, 0, 0), lambda: I.LW(10, 3, 0), lambda: I.SW(3, 10, 4)]
    for _ in range(2500 if tier == "quick" else 60000):
        regs = initial_regs(rnd)
        regs[17] = rnd.choice([1, 1, 1, 36, 11, 34])
        regs[1] = rnd.choice([0, 1, 2, 3])
        yield [rnd.choice(E)() for _ in range(rnd.randint(3, 9))], regs


def run_c02(tier, seed):
    evals = 0
    seen = set()
    viol = []
    samples = []
    for prog, regs in programs(tier, seed):
        r = check_equivalence(prog, regs, None)
        if r is None:
            continue
        evals += 1
        key, a, b = r[0], r[1], r[2]
        pm = b.state.performance_metrics
        if pm.stalls or pm.flushes:
            seen.add((tuple(type(p).__name__ for p in prog), min(pm.stalls, 3), min(pm.flushes, 3)))
        if len(samples) < 3 and pm.stalls and pm.flushes:
            samples.append({**describe(prog, regs), "stalls": pm.stalls, "flushes": pm.flushes, "cycles": pm.cycles})
        if key is not None and len(viol) < 5:
            viol.append({"key": "C02:" + key + ":" + "/".join(str(p) for p in prog)[:120], "what": key, **describe(prog, regs), "regs": regs})
    return {"evaluations": evals, "distinct_nontrivial": len(seen), "violations": viol, "samples": samples,
            "rule": "programs: all sequences of length <= %d over an 11-template alphabet x %d register files, plus seeded random programs (length 2..12, full alphabet of bounded/progs.py) and ecall-dense random programs (length 3..9, 15 templates: printing ecalls, taken/untaken/backward branches, jumps, producers of a0, loads/stores); non-trivial = the five-stage run had a stall or a flush; distinct by (mnemonic sequence, #stalls, #flushes)" % (3 if tier == "quick" else 4, 2 if tier == "quick" else 4),
            "bound": "program length <= 12, <= 120 single-cycle steps", "contract": "five-stage == single-cycle on registers, data memory, output, exit code, retired/branch/call counts, retired order; same fault address and state at a fault"}


def penalty_run(prog, regs, dcfg, icfg):
    """five-stage run with caches: -> (first step whose cycle increment is not 1 + penalty x misses, or None; final state)"""
    from architecture_simulator.uarch.memory.cache import CacheOptions
    from architecture_simulator.simulation.runtime_errors import InstructionExecutionException
    d = CacheOptions(True, *dcfg)
    ic = CacheOptions(True, *icfg) if icfg is not None else None
    pen_d, pen_i = dcfg[5], (icfg[5] if icfg is not None else 0)
    b = make_sim(prog, regs, "five_stage_pipeline", True, dcache=d, icache=ic)
    st = b.state
    steps = 0
    bad = None
    try:
        while not b.is_done() and steps < 400:
            c0 = st.performance_metrics.cycles
            dm0 = st.memory.accesses - st.memory.hits
            im0 = (st.instruction_memory.accesses - st.instruction_memory.hits) if ic is not None else 0
            b.step()
            steps += 1
            dm = st.memory.accesses - st.memory.hits - dm0
            im = ((st.instruction_memory.accesses - st.instruction_memory.hits) if ic is not None else 0) - im0
            if st.performance_metrics.cycles - c0 != 1 + pen_d * dm + pen_i * im:
                bad = "step %d advanced the cycle counter by %d; one plus the penalties of its %d data / %d instruction misses is %d" % (
                    steps, st.performance_metrics.cycles - c0, dm, im, 1 + pen_d * dm + pen_i * im)
                break
    except InstructionExecutionException:
        return bad, st
    if bad is None and b.is_done():
        # the caches change WHEN cycles are charged, not the schedule: the run ends after as many steps as the uncached run,
        # and the cycle total is the uncached total plus the charged penalties
        u = make_sim(prog, regs, "five_stage_pipeline", True)
        usteps = 0
        try:
            while not u.is_done() and usteps < 400:
                u.step()
                usteps += 1
        except InstructionExecutionException:
            return bad, st
        dm = st.memory.accesses - st.memory.hits
        im = (st.instruction_memory.accesses - st.instruction_memory.hits) if ic is not None else 0
        if u.is_done() and (steps != usteps or st.performance_metrics.cycles != u.state.performance_metrics.cycles + pen_d * dm + pen_i * im):
            bad = "the run with caches took %d steps / %d cycles; the uncached run %d steps / %d cycles, and %d data + %d instruction misses were charged %d cycles" % (
                steps, st.performance_metrics.cycles, usteps, u.state.performance_metrics.cycles, dm, im, pen_d * dm + pen_i * im)
    return bad, st


def run_c07(tier, seed):
    evals = 0
    seen = set()
    viol = []
    samples = []
    # the oracle must reproduce the cycle totals the repository's own tests assert
    for prog, regs in programs(tier, seed + 7):
        r = check_equivalence(prog, regs, None)
        if r is None or r[0] is not None or r[7] is not None:
            continue
        key, a, b, trace, addrs, retired, cycles, fa = r
        ref_retire, ref_total = schedule(trace, True)
        evals += 1
        pm = b.state.performance_metrics
        if pm.stalls or pm.flushes:
            seen.add((tuple(type(p).__name__ for p in prog), pm.stalls, pm.flushes))
        if [c for _, c in retired] != ref_retire or cycles != ref_total:
            if len(viol) < 5:
                viol.append({"key": "C07:schedule:" + "/".join(str(p) for p in prog)[:120], **describe(prog, regs), "regs": regs,
                             "real": [c for _, c in retired], "reference": ref_retire, "real_total": cycles, "reference_total": ref_total})
        elif len(samples) < 3 and pm.stalls:
            samples.append({**describe(prog, regs), "retire_cycles": ref_retire, "total": ref_total})
    # penalty clause: with a data / instruction cache that charges a miss penalty, EVERY step advances the cycle counter
    # by exactly one plus penalty x (misses counted in that step); the miss counts are the caches' own counters (their
    # correctness is C09/C11's business), the schedule itself is unchanged by the caches
    from architecture_simulator.uarch.memory.cache import CacheOptions
    from architecture_simulator.simulation.runtime_errors import InstructionExecutionException
    rnd = random.Random(seed + 77)
    n_pen = 0
    for _ in range(400 if tier == "quick" else 12000):
        k = rnd.random()
        if k < 0.5:
            prog = [rnd.choice([lambda: I.SW(3, rnd.choice([1, 2]), 4 * rnd.randint(0, 40)), lambda: I.SH(3, rnd.choice([1, 2]), 2 * rnd.randint(0, 80)),
                                lambda: I.SB(3, 1, rnd.randint(0, 160)), lambda: I.LW(rnd.choice([1, 2]), 3, 4 * rnd.randint(0, 40)),
                                lambda: I.LH(1, 3, 2 * rnd.randint(0, 80)), lambda: I.LBU(2, 3, rnd.randint(0, 160)), lambda: I.ADDI(1, 1, 1), lambda: I.ADD(2, 1, 2)])()
                    for _ in range(rnd.randint(3, 12))]
        else:
            prog = random_program(rnd, rnd.randint(3, 12))
        regs = initial_regs(rnd)
        pen_d, pen_i = rnd.choice([1, 2, 5]), rnd.choice([0, 3])
        d = CacheOptions(True, rnd.randint(0, 1), rnd.randint(0, 1), rnd.choice([1, 2]), rnd.choice(["wb", "wt"]), rnd.choice(["lru", "plru"]), pen_d)
        ic = CacheOptions(True, rnd.randint(0, 1), rnd.choice([0, 1, 2, 3]), rnd.choice([1, 2]), "wb", "lru", pen_i) if rnd.random() < 0.5 else None
        dcfg = [d.num_index_bits, d.num_block_bits, d.associativity, d.cache_type, d.replacement_strategy, pen_d]
        icfg = [ic.num_index_bits, ic.num_block_bits, ic.associativity, "wb", "lru", pen_i] if ic is not None else None
        bad, st = penalty_run(prog, regs, dcfg, icfg)
        evals += 1
        n_pen += 1
        if st.memory.accesses > st.memory.hits > 0:
            seen.add(("penalty", d.cache_type, tuple(type(p).__name__ for p in prog)[:6]))
        if bad and len(viol) < 5:
            viol.append({"key": "C07:penalty:" + bad[:60], "what": bad, **describe(prog, regs), "regs": regs, "data_cache": dcfg, "instruction_cache": icfg})
    return {"evaluations": evals, "distinct_nontrivial": len(seen), "violations": viol, "samples": samples, "penalty_runs": n_pen,
            "rule": "same program scope as C02; non-trivial = run with a stall or flush; distinct by (mnemonic sequence, #stalls, #flushes); plus random memory-dense and general programs in five-stage mode with random data (and instruction) caches charging a miss penalty",
            "bound": "program length <= 12", "contract": "per-instruction retire cycle and total cycles == reference scheduler (spec/sched.py); with caches: every step advances the cycle counter by 1 + penalty x misses counted in that step"}


def straight_line(rnd, n):
    T = [lambda: I.ADD(rnd.choice(REGS[:3]), rnd.choice(REGS), rnd.choice(REGS)), lambda: I.ADDI(rnd.choice(REGS[:3]), rnd.choice(REGS), rnd.randint(-3, 3)),
         lambda: I.LW(rnd.choice(REGS[:3]), 3, 4 * rnd.randint(0, 3)), lambda: I.SW(3, rnd.choice(REGS), 4 * rnd.randint(0, 3)),
         lambda: I.MUL(rnd.choice(REGS[:3]), rnd.choice(REGS), rnd.choice(REGS)), lambda: I.ADDI(0, 0, 0), lambda: I.LUI(rnd.choice(REGS[:3]), rnd.randint(0, 9))]
    return [rnd.choice(T)() for _ in range(n)]


def interlock_free_reference(prog, regs, mem_words):
    """straight-line programs: instruction j reads the register file as left by instructions 0..j-3"""
    views = [list(regs)]
    mem = dict(mem_words)

    def rd8(a):
        return (mem.get(a - a % 4, 0) >> (8 * (a % 4))) & 255
    for j, ins in enumerate(prog):
        vis = views[max(0, j - 2)]
        e = S.step(ins.mnemonic, getattr(ins, "rd", None), getattr(ins, "rs1", None), getattr(ins, "rs2", None), getattr(ins, "imm", 0),
                   lambda i: vis[i], rd8, 4 * j, DATA)
        nxt = list(views[j])
        if e.rd is not None and e.rd != 0:
            nxt[e.rd] = e.value
        for (a, b) in e.stores:
            w = a - a % 4
            mem[w] = (mem.get(w, 0) & ~(255 << (8 * (a % 4)))) | (b << (8 * (a % 4)))
        views.append(nxt)
    return views[-1], mem


def pad(prog):
    out = []
    for ins in prog:
        out.append(ins)
        out.append(I.ADDI(0, 0, 0))
        out.append(I.ADDI(0, 0, 0))
    return out


def run_c08(tier, seed):
    rnd = random.Random(seed + 11)
    evals = 0
    seen = set()
    viol = []
    samples = []
    n = 1500 if tier == "quick" else 30000
    for it in range(n):
        regs = initial_regs(rnd)
        regs[3] = DATA + 16
        prog = straight_line(rnd, rnd.randint(2, 8))
        b = make_sim(prog, regs, "five_stage_pipeline", False)
        mem0 = {DATA + 16 + 4 * i: (i * 0x01010101 + 0x80) % 2 ** 32 for i in range(8)}
        retired, fb, cycles = five_stage_run(b)
        if fb is not None:
            continue
        want_regs, want_mem = interlock_free_reference(prog, regs, mem0)
        evals += 1
        got = [int(r) for r in b.state.register_file.registers]
        gotmem = {a: int(b.state.memory.read_word(a)) for a in want_mem}
        stale = want_regs != [int(r) for r in make_and_run_single(prog, regs)]
        if stale:
            seen.add(tuple(str(p) for p in prog))
        if got != want_regs or gotmem != want_mem or b.state.performance_metrics.stalls != 0 or cycles != len(prog) + 4:
            if len(viol) < 5:
                viol.append({"key": "C08:stale-read:" + "/".join(str(p) for p in prog)[:120], **describe(prog, regs), "regs": regs})
        elif stale and len(samples) < 2:
            samples.append({**describe(prog, regs), "note": "result differs from single-cycle mode exactly as the interlock-free semantics prescribes"})
        # nop-padded arbitrary programs (branch offsets scaled) equal single-cycle mode
        if it % 3 == 0:
            p2 = random_program(rnd, rnd.randint(2, 7))
            for ins in p2:
                if hasattr(ins, "imm") and type(ins).__name__ in ("BEQ", "BNE", "JAL"):
                    ins.imm = ins.imm * 3
            r = check_equivalence(pad(p2), regs, None, detect=False)
            if r is not None:
                evals += 1
                if r[0] is not None and len(viol) < 5:
                    viol.append({"key": "C08:nop-padded:" + r[0] + ":" + "/".join(str(p) for p in p2)[:120], **describe(pad(p2), regs), "regs": regs})
                if r[2].state.performance_metrics.flushes:
                    seen.add(("padded",) + tuple(str(p) for p in p2))
    return {"evaluations": evals, "distinct_nontrivial": len(seen), "violations": viol, "samples": samples or [{"note": "no stale-read sample"}],
            "rule": "random straight-line programs (length 2..8) vs the interlock-free reference (writes visible from 3 slots on), no stall, n+4 cycles; random programs with two nops behind every instruction vs single-cycle mode; non-trivial = result differs from single-cycle mode (stale read observed) or padded program with a flush; distinct by program text",
            "bound": "program length <= 8 (24 padded)", "contract": "interlock-free semantics / nop-padded equivalence"}


def make_and_run_single(prog, regs):
    a = make_sim(prog, regs, "single_stage_pipeline")
    n = 0
    try:
        while not a.is_done() and n < 100:
            a.step()
            n += 1
    except Exception:
        pass
    return a.state.register_file.registers


def replay(j):
    """re-run the recorded program (re-assembled from its printed text) and re-evaluate the contract"""
    from architecture_simulator.simulation.riscv_simulation import RiscvSimulation
    tmp = RiscvSimulation()
    tmp.load_program("\n".join(j["program"]))
    prog = [ins for _, ins in sorted(tmp.state.instruction_memory.instructions.items())]
    regs = j["regs"]
    key = j.get("key", "")
    if key.startswith("C07:penalty"):
        bad, _ = penalty_run(prog, regs, j["data_cache"], j.get("instruction_cache"))
        ok = bad is None
    elif key.startswith("C07"):
        r = check_equivalence(prog, regs, None)
        ref_retire, ref_total = schedule(r[4 - 1], True)
        ok = [c for _, c in r[5]] == ref_retire and r[6] == ref_total
    elif key.startswith("C08:stale"):
        b = make_sim(prog, regs, "five_stage_pipeline", False)
        five_stage_run(b)
        want_regs, _ = interlock_free_reference(prog, regs, {DATA + 16 + 4 * i: (i * 0x01010101 + 0x80) % 2 ** 32 for i in range(8)})
        ok = [int(x) for x in b.state.register_file.registers] == want_regs
    else:
        r = check_equivalence(prog, regs, None, detect=not key.startswith("C08"))
        ok = r is None or r[0] is None
    print("program:", j["program"], "registers x1..x3:", regs[1:4], "->", "contract holds" if ok else "contract VIOLATED")
    return ok
