from bounded import pipeline


def run(tier, seed):
    return pipeline.run_c07(tier, seed)


def replay(j):
    return pipeline.replay(j)
