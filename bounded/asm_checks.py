"""BOUNDED run-time contracts on the real assemblers (RiscvSimulation.load_program / ToySimulation.load_program).
C04: denotation + rendering independence; C05: data layout, name[i], li, documented example; C14: print/re-assemble
round trip; C15: only well-typed errors.  Never counted as proved."""
import random
import itertools
from bounded.asm import *
from bounded import asm
from architecture_simulator.simulation.riscv_simulation import RiscvSimulation
from architecture_simulator.simulation.toy_simulation import ToySimulation
from architecture_simulator.isa.parser_exceptions import ParserException, MemorySizeException
from architecture_simulator.uarch.memory.memory import MemoryAddressError
from architecture_simulator.isa.riscv.rv32i_instructions import instruction_map
from architecture_simulator.isa.riscv import instruction_types as T


def load(text, **kw):
    sim = RiscvSimulation(**kw)
    sim.load_program(text)
    return sim


def imem(sim):
    return sim.state.instruction_memory.instructions


def data_bytes(sim):
    m = sim.state.memory
    if hasattr(m, "cache"):
        # logical contents of a cached data memory: backing store overlaid with the resident blocks
        out = {a: int(v) for a, v in m.memory.memory_file.items()}
        for cs in m.cache.sets:
            for b in cs.blocks:
                if b.valid_bit:
                    base = b.decoded_address.block_alinged_address
                    for i, wv in enumerate(b.values):
                        for k in range(4):
                            out[base + 4 * i + k] = (int(wv) >> (8 * k)) & 255
        return out
    return {a: int(v) for a, v in m.memory_file.items()}


def shape_key(prog):
    return tuple((it.kind, getattr(it, "mn", None), bool(it.label)) for it in prog.text) + tuple(d.kind for d in prog.data) + (prog.data_first,)


# ------------------------------------------------------------------------------------------- C04
def small_programs():
    """exhaustive: every sequence of <= 2 items from a 10-template alphabet x label placements (stand-alone before/after/end, in-line)"""
    alpha = [
        lambda: Item("instr", mn="add", fields={"rd": 1, "rs1": 2, "rs2": 3}),
        lambda: Item("instr", mn="addi", fields={"rd": 5, "rs1": 0, "imm": -7}),
        lambda: Item("instr", mn="lw", fields={"rd": 6, "rs1": 2, "imm": 8}),
        lambda: Item("instr", mn="sw", fields={"rs1": 2, "rs2": 6, "imm": -4}),
        lambda: Item("instr", mn="beq", fields={"rs1": 1, "rs2": 0}, target=("label", "L", None)),
        lambda: Item("instr", mn="jal", fields={"rd": 1}, target=("label", "L", 4)),
        lambda: Item("li", rd=7, c=100000),
        lambda: Item("li", rd=7, c=-5),
        lambda: Item("ldv", mn="lh", rd=8, var="v", idx=1),
        lambda: Item("stv", mn="sb", rs1=9, rs2=10, var="v", idx=None),
        lambda: Item("nop"),
        lambda: Item("ecall"),
    ]
    for n in (1, 2, 3):
        for combo in itertools.product(range(len(alpha)), repeat=n):
            if n == 3 and (combo[0] % 3 or combo[2] % 2):      # thin out the 3-item space
                continue
            for place in range(2 * n + 1):
                items = [alpha[i]() for i in combo]
                if place < n:
                    items[place].label = "L"
                else:
                    items.insert(place - n, Item("label", name="L"))
                yield Program(items, [Data("half", "v", values=[1, 2, 3])], data_first=bool(place % 2), use_text_directive=bool(n % 2))


def check_c04(prog, rnd):
    expected, labels, table, mem = expand(prog)
    text1 = render(prog, random.Random(rnd.getrandbits(32)), plain=True)
    text2 = render(prog, random.Random(rnd.getrandbits(32)))
    try:
        s1 = load(text1)
        s2 = load(text2)
    except Exception as e:
        return "load failed: %s: %s" % (type(e).__name__, str(e)[:100] or repr(e)[:100]), text2
    m = matches(expected, imem(s1))
    if m:
        return "plain rendering: " + m, text1
    m = matches(expected, imem(s2))
    if m:
        return "decorated rendering: " + m, text2
    if [(a, str(i)) for a, i in sorted(imem(s1).items())] != [(a, str(i)) for a, i in sorted(imem(s2).items())] or data_bytes(s1) != data_bytes(s2):
        return "two renderings of one program load differently", text2
    return None, text2


def vocabulary_sweep():
    """EXHAUSTIVE over the vocabulary: every mnemonic x every register operand position x every register number x every
    spelling of that register (xN and all ABI names), mnemonic in lower / upper case, immediates in decimal, hex, binary
    and negative -- each as one line, the other operands fixed; 120 lines per assembled program.
    -> list of (description, text) for lines whose instruction is not the one the syntax denotes"""
    bad = []
    lines, items = [], []

    def flush():
        if not items:
            return
        prog = Program(list(items), [], False, False)
        expected, _, _, _ = expand(prog)
        text = "\n".join(lines) + "\n"
        try:
            got = imem(load(text))
            m = matches(expected, got)
        except Exception as e:
            m = "load failed: %s: %s" % (type(e).__name__, str(e)[:80] or repr(e)[:80])
        if m:
            # locate the offending line for the report
            idx = None
            for i, (a, mn, f) in enumerate(expected):
                if ("at %d" % a) in m:
                    idx = i
            bad.append(("vocabulary sweep: %s   [line: %s]" % (m, lines[idx] if idx is not None else "?"), text if idx is None else lines[idx] + "\n"))
        del lines[:]
        del items[:]

    def add(mn, fields, line, target=None):
        it = Item("instr", mn=mn, fields=fields)
        if target is not None:
            it.target = target
        items.append(it)
        lines.append(line)
        if len(items) >= 120:
            flush()
    spell = {n: ["x%d" % n] + ABI_BY_NUM.get(n, []) for n in range(32)}
    imms = [("5", 5), ("0x7ff", 2047), ("-2048", -2048), ("0b101", 5), ("-0x10", -16), ("0", 0)]
    k = 0
    for n in range(32):
        for sp in spell[n]:
            k += 1
            up = k % 2 == 0
            for mn in R_TYPE:
                m = mn.upper() if up else mn
                add(mn, {"rd": n, "rs1": 6, "rs2": 7}, "%s %s, x6, x7" % (m, sp))
                add(mn, {"rd": 5, "rs1": n, "rs2": 7}, "%s x5, %s, x7" % (m, sp))
                add(mn, {"rd": 5, "rs1": 6, "rs2": n}, "%s x5, x6, %s" % (m, sp))
            for j, mn in enumerate(I_TYPE + ["jalr"]):
                m = mn.upper() if up else mn
                t, v = imms[(k + j) % len(imms)]
                add(mn, {"rd": n, "rs1": 6, "imm": v}, "%s %s, x6, %s" % (m, sp, t))
                add(mn, {"rd": 5, "rs1": n, "imm": v}, "%s x5, %s, %s" % (m, sp, t))
            for j, mn in enumerate(SHIFT):
                m = mn.upper() if up else mn
                sh = [0, 1, 31, 17][(k + j) % 4]
                add(mn, {"rd": n, "rs1": 6, "imm": sh}, "%s %s, x6, %d" % (m, sp, sh))
                add(mn, {"rd": 5, "rs1": n, "imm": sh}, "%s x5, %s, %s" % (m, sp, hex(sh)))
            for j, mn in enumerate(LOAD):
                m = mn.upper() if up else mn
                t, v = imms[(k + j + 1) % len(imms)]
                add(mn, {"rd": n, "rs1": 6, "imm": v}, "%s %s, %s(x6)" % (m, sp, t))
                add(mn, {"rd": 5, "rs1": n, "imm": v}, "%s x5, %s(%s)" % (m, t, sp))
                add(mn, {"rd": 5, "rs1": n, "imm": v}, "%s x5, %s, %s" % (m, sp, t))
            for j, mn in enumerate(STORE):
                m = mn.upper() if up else mn
                t, v = imms[(k + j + 2) % len(imms)]
                add(mn, {"rs2": n, "rs1": 6, "imm": v}, "%s %s, %s(x6)" % (m, sp, t))
                add(mn, {"rs2": 5, "rs1": n, "imm": v}, "%s x5, %s(%s)" % (m, t, sp))
                add(mn, {"rs2": n, "rs1": 6, "imm": v}, "%s %s, x6, %s" % (m, sp, t))
            for j, mn in enumerate(U_TYPE):
                m = mn.upper() if up else mn
                t, v = [("1", 1), ("0x7ffff", 0x7FFFF), ("0xfffff", 0xFFFFF), ("0x80000", 0x80000), ("0", 0)][(k + j) % 5]
                add(mn, {"rd": n, "imm": v}, "%s %s, %s" % (m, sp, t))
            for j, mn in enumerate(BRANCH):
                m = mn.upper() if up else mn
                off = [8, -8, 4094, -4096, 0][(k + j) % 5]
                add(mn, {"rs1": n, "rs2": 7}, "%s %s, x7, %d" % (m, sp, off), ("num", off))
                add(mn, {"rs1": 6, "rs2": n}, "%s x6, %s, %d" % (m, sp, off), ("num", off))
            add("jal", {"rd": n}, "%s %s, %d" % ("JAL" if up else "jal", sp, 4 * k), ("num", 4 * k))
    flush()
    return bad


def run_c04(tier, seed):
    rnd = random.Random(seed + 4)
    evals, seen, viol, samples = 0, set(), [], []
    for what, text in vocabulary_sweep()[:5]:
        viol.append({"key": "C04:" + what[:80], "what": what, "text": text})
    evals += 1
    gens = [small_programs()]
    n_rand = 700 if tier == "quick" else 12000

    def rand_progs():
        for _ in range(n_rand):
            yield gen_program(rnd, 30)
    for prog in itertools.chain(small_programs(), rand_progs()):
        evals += 1
        bad, text = check_c04(prog, rnd)
        nontrivial = any(it.kind in ("li", "la", "ldv", "stv") or it.label or it.kind == "label" for it in prog.text)
        if nontrivial:
            seen.add(shape_key(prog))
        if bad and len(viol) < 5:
            viol.append({"key": "C04:" + bad[:80], "what": bad, "text": text})
        if not bad and nontrivial and len(samples) < 2 and len(text) < 400:
            samples.append({"text": text})
    return {"evaluations": evals, "distinct_nontrivial": len(seen), "violations": viol, "samples": samples,
            "rule": "vocabulary sweep: every mnemonic x register operand position x register number x spelling (xN and every ABI name), both mnemonic cases, immediates in every base -- exhaustive; program ASTs: exhaustive over sequences of <= 3 items from a 12-template alphabet x all placements of one label (in-line on each item incl. expanding pseudo-instructions, stand-alone before each item and at the end), plus seeded random ASTs up to 30 lines; each AST is rendered twice (plain / randomised register spelling, mnemonic case, number base, comments, blank lines, indentation, operand form); non-trivial = contains a label or a pseudo-instruction; distinct by AST shape",
            "bound": "<= 30 source lines", "contract": "instruction memory == denotation of the AST at consecutive addresses from 0; both renderings load identically"}


# ------------------------------------------------------------------------------------------- C05
DOC_EXAMPLE = '''.data
    empty_array: .zero 64 # reserves space for 64 words (256 bytes)
    my_var1: .byte -128
    my_var2: .half 0x1234, 0b1010, 999
    my_var3: .word 0x12345678, 0b111
    text1:   .string "Hello, World!"  # ASCII byte array
.text
    la x1, my_var1     # load address of my_var1 into x1
    lh x2, my_var2     # load halfword from my_var2 into x2
    lh x3, my_var2[0]  # same effect as above
    lh x4, my_var2[2]  # x4 = 999
    lw x5, my_var3[1]  # x5 = 0b111
    lb x6, text1[11]   # x6 = '!'
'''


EARLIER_PROGRAM = """.data
    old_a: .word 0x11111111, 0x22222222, 0x33333333, 0x44444444, 0x55555555, 0x66666666
    old_s: .string "previous program's text"
.text
    lw x5, old_a[0]
    lw x6, old_a[3]
"""


def run_c05(tier, seed):
    rnd = random.Random(seed + 5)
    evals, seen, viol, samples = 0, set(), [], []
    # documented example.  The normative clause (name[i] = address of element i) decides x6: element 11 of
    # "Hello, World!" is 'd'; the help page's comment says '!' (element 12) -- a documentation slip (finding F7).
    s = load(DOC_EXAMPLE)
    s.run()
    x = [int(r) for r in s.state.register_file.registers]
    want = {1: DATA0 + 256, 2: 0x1234, 3: 0x1234, 4: 999, 5: 7, 6: ord("d")}
    evals += 1
    for r, v in want.items():
        if x[r] != v:
            viol.append({"key": "C05:documented-example:x%d" % r, "what": "documented example: x%d = %d, expected %d" % (r, x[r], v), "text": DOC_EXAMPLE})
    def case(data, d, idx, c, mn, smn, data_first):
        """one program: la / load-by-name / li, then a store-by-name of the constant to the same element and a plain
        load of it back through the address la produced"""
        nonlocal evals
        items = [Item("la", rd=5, var=d.name, idx=idx), Item("ldv", mn=mn, rd=6, var=d.name, idx=idx), Item("li", rd=7, c=c),
                 Item("stv", mn=smn, rs1=7, var=d.name, idx=idx, rs2=9),
                 Item("instr", mn={"sb": "lbu", "sh": "lhu", "sw": "lw"}[smn], fields={"rd": 8, "rs1": 5, "imm": 0})]
        prog = Program(items, data, data_first=data_first, use_text_directive=True)
        table, mem = layout(data)
        text = render(prog, random.Random(rnd.getrandbits(32)))
        evals += 1
        seen.add((tuple(x.kind for x in data), d.kind, idx is None, prog.data_first))
        x = [0] * 32
        try:
            # every third case runs in a simulation with a data cache (either policy, small geometries, both modes): what
            # the data segment holds and what name[i] yields does not depend on how the memory is configured
            kw = {}
            if evals % 3 == 0:
                from architecture_simulator.uarch.memory.cache import CacheOptions
                kw = {"data_cache": CacheOptions(True, rnd.randint(0, 2), rnd.randint(0, 2), rnd.choice([1, 2]), rnd.choice(["wb", "wt"]), rnd.choice(["lru", "plru"]), 0),
                      "mode": rnd.choice(["single_stage_pipeline", "five_stage_pipeline"])}
            if kw:
                # (a cached memory rejects accesses that cross a word boundary -- C03; such cases stay uncached)
                base0, size0 = table[d.name]
                ea0 = base0 + size0 * (idx or 0)
                if ea0 % 4 + {"b": 1, "h": 2, "w": 4}[mn[1]] > 4 or ea0 % 4 + {"sb": 1, "sh": 2, "sw": 4}[smn] > 4:
                    kw = {}
            used = bool(kw) and evals % 2 == 0
            if used:
                # the same program assembled into a simulation that held another program before (never started; its data
                # segment was looked at through the memory system, which fills the cache): what the data segment holds
                # after load_program does not depend on what the simulation held before
                s = RiscvSimulation(**kw)
                s.load_program(EARLIER_PROGRAM)
                a0 = s.state.memory.get_address_range().start
                for a_ in range(a0, a0 + 48, 4):
                    s.state.memory.read_word(a_)
                s.load_program(text)
            else:
                s = load(text, **kw)
            bad = None
            if data_bytes(s) != {a: b for a, b in mem.items()} and {a: b for a, b in data_bytes(s).items() if b} != {a: b for a, b in mem.items() if b}:
                bad = "data memory differs from the documented layout"
            if not bad and any(k not in data_bytes(s) for k in mem):
                bad = "an initialised byte was not written"
            s.run()
            x = [int(r) for r in s.state.register_file.registers]
            base, size = table[d.name]
            ea = base + size * (idx or 0)
            n = {"b": 1, "h": 2, "w": 4}[mn[1]]
            raw = sum(mem.get(ea + i, 0) << (8 * i) for i in range(n))
            val = raw if mn in ("lbu", "lhu", "lw") else asm.sext(raw, 8 * n) % 2 ** 32
            if not bad and x[5] != ea:
                bad = "la: x5 = 0x%X, element address is 0x%X" % (x[5], ea)
            if not bad and x[6] != val:
                bad = "%s %s[%s]: x6 = 0x%X, expected 0x%X" % (mn, d.name, idx, x[6], val)
            if not bad and x[7] != c % 2 ** 32:
                bad = "li x7, %d leaves 0x%X" % (c, x[7])
            sn = {"sb": 1, "sh": 2, "sw": 4}[smn]
            if not bad and x[8] != (c % 2 ** 32) % 2 ** (8 * sn):
                bad = "%s x7, %s[%s], x9 then a load from the element address: 0x%X, the stored value is 0x%X" % (smn, d.name, idx, x[8], (c % 2 ** 32) % 2 ** (8 * sn))
            if not bad:
                after = data_bytes(s)
                for a in set(after) | set(mem):
                    if not (ea <= a < ea + sn) and after.get(a, 0) != mem.get(a, 0):
                        bad = "store by name to %s[%s] changed byte 0x%X outside the element" % (d.name, idx, a)
                        break
        except Exception as e:
            bad = "%s: %s" % (type(e).__name__, str(e)[:100] or repr(e)[:100])
        if bad and kw:
            c_ = kw["data_cache"]
            bad += "   [with a data cache: %d index bits, %d block bits, %d ways, %s, %s; %s%s]" % (c_.num_index_bits, c_.num_block_bits, c_.associativity, c_.cache_type, c_.replacement_strategy, kw["mode"], "; loaded into a simulation that held another program before" if used else "")
        if bad and len(viol) < 5:
            base, size = table[d.name]
            ea = base + size * (idx or 0)
            n = {"b": 1, "h": 2, "w": 4}[mn[1]]
            raw = sum(mem.get(ea + i, 0) << (8 * i) for i in range(n))
            sn = {"sb": 1, "sh": 2, "sw": 4}[smn]
            viol.append({"key": "C05:" + bad[:70], "what": bad, "text": text, "sub": "case",
                         "cache": [c_.num_index_bits, c_.num_block_bits, c_.associativity, c_.cache_type, c_.replacement_strategy] if kw else None, "mode": kw.get("mode"), "used": bool(kw) and used,
                         "expected_data": {str(a): b for a, b in mem.items()},
                         "expected_registers": {"5": ea, "6": raw if mn in ("lbu", "lhu", "lw") else asm.sext(raw, 8 * n) % 2 ** 32, "7": c % 2 ** 32, "8": (c % 2 ** 32) % 2 ** (8 * sn)}})
        elif not bad and len(samples) < 2:
            samples.append({"text": text, "x5_x6_x7": [hex(x[5]), hex(x[6]), hex(x[7])]})

    # deterministic sweep: every kind of declaration behind every size class of predecessor (alignment), every
    # element index of the accessed variable, both segment orders
    firsts = [Data("byte", "p", values=[1] * k) for k in (1, 2, 3, 4, 5)] + [Data("half", "p", values=[0x1234] * k) for k in (1, 2, 3)] + \
             [Data("string", "p", string="abcdefg"[:k]) for k in (0, 1, 2, 3, 4)] + [Data("word", "p", values=[7]), Data("zero", "p", n=1)]
    seconds = [Data("byte", "q", values=[0x80, 0x7F, 3]), Data("half", "q", values=[0x8001, 2, 0xFFFF]), Data("word", "q", values=[0x80000001, 5]),
               Data("string", "q", string="xyz"), Data("zero", "q", n=3)]
    kcase = 0
    for f in firsts:
        for d in seconds:
            for idx in [None] + list(range(n_elems(d))) + ([10, 12] if d.kind == "zero" else []):
                if d.kind == "zero" and idx is not None and idx >= 3:
                    continue
                kcase += 1
                tail = Data("word", "r", values=[0x11223344])
                case([f, d, tail], d, idx, [0x12345678, -2, 0x800, 0xFFFFF800][kcase % 4], LOAD[kcase % len(LOAD)], STORE[kcase % len(STORE)] if d.kind != "string" else "sb", kcase % 2 == 0)
    # indices with several digits
    big = Data("byte", "big", values=list(range(1, 41)))
    for idx in (9, 10, 11, 12, 19, 20, 21, 39):
        case([Data("half", "p", values=[1]), big], big, idx, 0x5A, "lbu", "sb", idx % 2 == 0)
    for it in range(1200 if tier == "quick" else 30000):
        data = gen_data(rnd, rnd.randint(1, 5))
        d = rnd.choice(data)
        idx = rnd.choice([None, 0, rnd.randint(0, n_elems(d) - 1)])
        c = rnd.choice([0, 2047, 2048, -2048, -2049, 0x7FFFF800, 0x80000000, 0xFFFFFFFF, 0xFFFFF800, rnd.randint(-2 ** 31, 2 ** 32 - 1),
                        (rnd.randint(0, 2 ** 20 - 1) << 12) | rnd.choice([0, 0x7FF, 0x800, 0xFFF, rnd.randint(0, 4095)])])
        mn = rnd.choice(LOAD)
        # a store wider than the element would spill into the neighbour: use the element's own width (bytes for strings)
        smn = {"byte": "sb", "half": rnd.choice(["sb", "sh"]), "word": rnd.choice(["sb", "sh", "sw"]), "string": "sb", "zero": rnd.choice(["sb", "sh", "sw"])}[d.kind]
        case(data, d, idx, c, mn, smn, rnd.random() < 0.5)
    return {"evaluations": evals, "distinct_nontrivial": len(seen), "violations": viol, "samples": samples,
            "rule": "deterministic sweep (every declaration kind behind every size class of predecessor x every element index x both segment orders; multi-digit indices) and random data segments (1..5 declarations of all five kinds, boundary/negative/over-wide values, large reservations) in either segment order, each with la / load-by-name / li / store-by-name + read back on a variable, index and constant, executed in single-cycle mode; plus the documented example; distinct by (declaration kinds, accessed kind, index written?, segment order)",
            "bound": "<= 5 declarations, <= 5 elements each", "contract": "data memory == documented layout; la/load give the address/value of element i; li leaves c mod 2**32"}


# ------------------------------------------------------------------------------------------- C14
def all_instructions(rnd, tier):
    regs = list(range(32))
    for mn, cls in instruction_map.items():
        if mn == "fence":
            continue
        picks = [(a, b, c) for a in (0, 1, 31) for b in (0, 17, 31) for c in (0, 5, 31)] + [tuple(rnd.choice(regs) for _ in range(3)) for _ in range(12 if tier == "quick" else 120)]
        if mn in ("add", "addi", "lw", "sw", "beq"):
            picks += [(a, b, c) for a in regs for b in (0, 31) for c in (1, 30)] + [(1, b, 2) for b in regs] + [(1, 2, c) for c in regs]
        for (a, b, c) in picks:
            if issubclass(cls, T.RTypeInstruction):
                yield cls(rd=a, rs1=b, rs2=c), None
            elif mn in ("ecall", "ebreak"):
                yield cls(), None
                break
            elif issubclass(cls, T.ShiftITypeInstruction):
                for imm in (0, 1, 31, rnd.randint(0, 31)):
                    yield cls(rd=a, rs1=b, imm=imm), None
            elif issubclass(cls, T.ITypeInstruction):
                for imm in (-2048, -2047, -1, 0, 1, 2046, 2047, rnd.randint(-2048, 2047)):
                    yield cls(rd=a, rs1=b, imm=imm), None
            elif issubclass(cls, T.STypeInstruction):
                for imm in (-2048, -1, 0, 1, 2047, rnd.randint(-2048, 2047)):
                    yield cls(rs1=a, rs2=b, imm=imm), None
            elif issubclass(cls, T.BTypeInstruction):
                for imm in (-4096, -4094, -2, 0, 2, 4094, 2 * rnd.randint(-2048, 2047)):
                    for addr in (0, 4, 40):
                        yield cls(rs1=a, rs2=b, imm=imm), addr
            elif issubclass(cls, T.UTypeInstruction):
                for imm in (-2 ** 19, -1, 0, 1, 2 ** 19 - 1, rnd.randint(-2 ** 19, 2 ** 19 - 1)):
                    yield cls(rd=a, imm=imm), None
            elif issubclass(cls, T.JTypeInstruction):
                for imm in (-2 ** 20, -2, 0, 2, 2 ** 20 - 2, 2 * rnd.randint(-2 ** 19, 2 ** 19 - 1)):
                    for addr in (0, 4, 40):
                        yield cls(rd=a, imm=imm, abs_addr=imm + addr), addr
            elif issubclass(cls, T.CSRTypeInstruction):
                for csr in (0, 1, 0x300, 0xFFF):
                    yield cls(rd=a, csr=csr, rs1=b), None
            elif issubclass(cls, T.CSRITypeInstruction):
                for csr in (0, 0x300, 0xFFF):
                    yield cls(rd=a, csr=csr, uimm=c), None


def ident(ins):
    d = {k: v for k, v in vars(ins).items() if k in ("rd", "rs1", "rs2", "imm", "csr", "uimm", "mnemonic")}
    return (type(ins).__name__, tuple(sorted(d.items())))


def run_c14(tier, seed):
    from architecture_simulator.isa.riscv.riscv_parser import RiscvParser
    from architecture_simulator.uarch.riscv.riscv_architectural_state import RiscvArchitecturalState
    rnd = random.Random(seed + 14)
    evals, seen, viol, samples = 0, set(), [], []
    for ins, addr in all_instructions(rnd, tier):
        text = repr(ins)
        st = RiscvArchitecturalState()
        a = addr or 0
        evals += 1
        seen.add((type(ins).__name__, a))
        try:
            RiscvParser().parse("nop\n" * (a // 4) + text, st)
            got = st.instruction_memory.instructions.get(a)
            ok = got is not None and ident(got) == ident(ins) and len(st.instruction_memory.instructions) == a // 4 + 1
            why = None if ok else "'%s' at %d re-assembles to '%s' %s" % (text, a, got, ident(got) if got else "")
        except Exception as e:
            why = "'%s' at %d does not re-assemble: %s" % (text, a, type(e).__name__)
        if why and len(viol) < 5:
            viol.append({"key": "C14:roundtrip:" + type(ins).__name__ + ":" + text[:40], "what": why, "text": text})
        elif not why and len(samples) < 3 and rnd.random() < 0.01:
            samples.append({"printed": text, "address": a})
    # listing idempotence on assembled programs
    for _ in range(200 if tier == "quick" else 5000):
        prog = gen_program(rnd, 20)
        text = render(prog, random.Random(rnd.getrandbits(32)))
        try:
            s1 = load(text)
        except Exception:
            continue
        listing = [t for _, t in s1.state.instruction_memory.get_representation()]
        evals += 1
        try:
            s2 = load("\n".join(listing))
            l2 = [t for _, t in s2.state.instruction_memory.get_representation()]
            why = None if l2 == listing else "listing changes when re-assembled"
            if why is None:
                # the printed text of every instruction of a loaded program must denote that very instruction
                i1, i2 = imem(s1), imem(s2)
                for a_ in sorted(i1):
                    if ident(i1[a_]) != ident(i2[a_]):
                        why = "printed '%s' at %d re-assembles to different fields %s, loaded instruction has %s" % (i1[a_], a_, ident(i2[a_])[1], ident(i1[a_])[1])
                        break
        except Exception as e:
            why = "listing does not re-assemble: %s" % type(e).__name__
        if why and len(viol) < 5:
            viol.append({"key": "C14:listing:" + why, "what": why, "text": "\n".join(listing)})
    return {"evaluations": evals, "distinct_nontrivial": len(seen), "violations": viol, "samples": samples or [{"printed": "add x1, x2, x3"}],
            "rule": "every mnemonic of the instruction map except FENCE x register triples (corners + random; full 32-register sweeps per operand position for add/addi/lw/sw/beq) x boundary and random immediates of the format's width (even for B/J) x addresses {0, 4, 40} for pc-relative forms; plus listing idempotence on random assembled programs; distinct by (class, address)",
            "bound": "see rule", "contract": "fields(assemble(repr(I), at a)) == fields(I); listing(assemble(listing(P))) == listing(P)"}


# ------------------------------------------------------------------------------------------- C15
def inject(rnd, text):
    lines = text.split("\n")
    k = rnd.random()
    if not lines:
        lines = [""]
    i = rnd.randrange(len(lines))
    faults = ["007", "0x", "0b", "0b102", "0xG", "9" * 5000, "-", "--5", "1e3", "٣", "0o17", "1_000", "0X10", "+5", " 5 5", "999999999999999999999"]
    if k < 0.25:
        import re
        nums = list(re.finditer(r"-?(0x[0-9a-fA-F]+|0b[01]+|\d+)", lines[i]))
        if nums:
            m = rnd.choice(nums)
            lines[i] = lines[i][:m.start()] + rnd.choice(faults) + lines[i][m.end():]
        else:
            lines[i] += " " + rnd.choice(faults)
    elif k < 0.35:
        lines[i] = lines[i].replace("L", "Q", 1) if "L" in lines[i] else lines[i] + " nolabel"
    elif k < 0.45:
        lines.insert(i, rnd.choice([".data", ".text", ".bss", ".word 5", "x: .quad 1", "v0_a: .word 1", ".data .text"]))
    elif k < 0.55:
        lines[i] = rnd.choice(["", "x1", ",", ":", "::", "a:b:", "add", "add x1", "add x1, x2, x3, x4", "lw x1, (x2)", "lw x1, 4(x2", "sw x1, v[", "li x1", "la x1, nosuch", "lw x1, nosuch[0]",
                               "jal x1, nolabel", "beq x1, x2, 3", "addi x32, x0, 1", "addi x1, x0, 1 2", "\"", ".string \"abc", "s: .string \"a\"b\"", "z: .zero -1", "z: .zero 1.5", "fence x1", "csrrw x1, 4096, x2"])
    elif k < 0.65:
        toks = ["add", "x1", ",", "5", "L:", ".data", "(", ")", "[", "]", "#", "lw", "-", "0x", "\t", "li", "v", ".word", "\"", "sp", "zero", "ECALL", ":"]
        lines[i] = " ".join(rnd.choice(toks) for _ in range(rnd.randint(1, 8)))
    elif k < 0.75:
        lines = lines + lines[: rnd.randint(1, max(1, len(lines)))]          # duplicated labels / segments
    elif k < 0.85:
        lines[i] = lines[i] + rnd.choice(["\x00", "ä", " x", "\r", " \x0b add x1,x1,x1", "﻿"])
    else:
        lines[i] = lines[i][: rnd.randint(0, len(lines[i]))]
    return "\n".join(lines)


def well_typed_outcome(fn, text):
    n_lines = len(text.splitlines())
    try:
        fn(text)
        return None, "ok"
    except ParserException as e:
        ln = getattr(e, "line_number", None)
        if not isinstance(ln, int) or not (1 <= ln <= max(n_lines, 1)):
            return "parser error with line number %r of %d lines (%s)" % (ln, n_lines, type(e).__name__), "err"
        return None, type(e).__name__
    except (MemorySizeException, MemoryAddressError) as e:
        return None, type(e).__name__
    except Exception as e:
        return "%s escapes load_program: %s" % (type(e).__name__, str(e)[:80]), "bad"


def toy_text(rnd):
    lines = []
    n = rnd.randint(0, 12)
    labels = ["l%d" % i for i in range(rnd.randint(0, 3))]
    for i in range(n):
        mn = rnd.choice(["STO", "LDA", "BRZ", "ADD", "SUB", "OR", "AND", "XOR", "NOT", "INC", "DEC", "ZRO", "NOP"])
        if mn in ("NOT", "INC", "DEC", "ZRO", "NOP"):
            s = mn
        else:
            s = mn + " " + rnd.choice([str(rnd.randint(0, 4095)), hex(rnd.randint(0, 4095)), rnd.choice(labels) if labels else "5", "var"])
        if labels and rnd.random() < 0.2:
            s = labels.pop() + ": " + s
        lines.append(s)
    for l in labels:
        lines.insert(rnd.randint(0, len(lines)), l + ":")
    d = ["var: .word 1, 2, 0x3"]
    return "\n".join((([".data"] + d + [".text"] + lines) if rnd.random() < 0.5 else (lines + [".data"] + d)))


def run_c15(tier, seed):
    rnd = random.Random(seed + 15)
    evals, seen, viol, samples = 0, set(), [], []
    n = 4000 if tier == "quick" else 100000
    for it in range(n):
        if it % 4 == 3:
            text = inject(rnd, toy_text(rnd))
            bad, kind = well_typed_outcome(lambda t: ToySimulation().load_program(t), text)
            which = "toy"
        else:
            prog = gen_program(rnd, 14)
            text = render(prog, random.Random(rnd.getrandbits(32)))
            if rnd.random() < 0.9:
                text = inject(rnd, text)
            bad, kind = well_typed_outcome(lambda t: RiscvSimulation().load_program(t), text)
            which = "riscv"
        evals += 1
        if kind not in ("ok",):
            seen.add((which, kind, len(text.splitlines()) > 5))
        if bad and len(viol) < 6:
            viol.append({"key": "C15:%s:%s" % (which, bad[:60]), "what": bad, "text": text[:3000], "assembler": which})
        elif kind not in ("ok", "bad") and len(samples) < 3 and len(text) < 200:
            samples.append({"assembler": which, "text": text, "outcome": kind})
    # run-time errors: faulting programs report InstructionExecutionException with address + printed form (both modes)
    from architecture_simulator.simulation.runtime_errors import InstructionExecutionException
    for mode in ("single_stage_pipeline", "five_stage_pipeline"):
        for body, addr in (("addi x1, x0, 5\nlw x2, 0(x0)\naddi x3,x0,1", 4), ("addi a7, x0, 77\necall", 4), ("sw x1, 4(x0)", 0), ("lb x1, 100(x0)", 0), ("ebreak", 0)):
            sim = RiscvSimulation(mode=mode)
            sim.load_program(body)
            evals += 1
            try:
                sim.run()
                why = "program '%s' did not fault in %s" % (body, mode)
            except InstructionExecutionException as e:
                want = str(sim.state.instruction_memory.instructions[addr])
                why = None if (e.address == addr and e.instruction_repr == want) else "fault reported at %r '%s', expected %d '%s'" % (e.address, e.instruction_repr, addr, want)
            except Exception as e:
                why = "%s escapes run() in %s for '%s'" % (type(e).__name__, mode, body)
            if why and len(viol) < 8:
                viol.append({"key": "C15:runtime:" + why[:60], "what": why, "text": body})
    return {"evaluations": evals, "distinct_nontrivial": len(seen), "violations": viol, "samples": samples or [{"text": "addi x1, x0, 007", "outcome": "ParserSyntaxException"}],
            "rule": "grammar-derived RISC-V and TOY programs with one injected fault each (odd numerals: leading zeros, empty prefixes, bad digits, 5000-digit, non-ASCII, underscores; unknown labels/variables/directives; duplicated and misplaced segments; malformed operand lists; token soups; truncation; control characters); outcome must be success, a ParserException with 1 <= line_number <= #lines, MemorySizeException or MemoryAddressError; plus faulting programs in both modes; non-trivial = an error outcome; distinct by (assembler, exception class, long/short text)",
            "bound": "<= 14 generated lines per text", "contract": "load_program outcome is well-typed; run-time faults are InstructionExecutionException(address, printed form)"}


def replay(j):
    """True = the contract holds now"""
    text = j.get("text", "")
    key = j.get("key", "")
    if j.get("sub") == "case":
        kw = {}
        if j.get("cache"):
            from architecture_simulator.uarch.memory.cache import CacheOptions
            c = j["cache"]
            kw = {"data_cache": CacheOptions(True, c[0], c[1], c[2], c[3], c[4], 0), "mode": j["mode"]}
        try:
            if j.get("used"):
                s = RiscvSimulation(**kw)
                s.load_program(EARLIER_PROGRAM)
                a0 = s.state.memory.get_address_range().start
                for a_ in range(a0, a0 + 48, 4):
                    s.state.memory.read_word(a_)
                s.load_program(text)
            else:
                s = load(text, **kw)
            got = {str(a): b for a, b in data_bytes(s).items() if b}
            ok = got == {a: b for a, b in j["expected_data"].items() if b}
            s.run()
            x = [int(r) for r in s.state.register_file.registers]
            for r, v in j["expected_registers"].items():
                ok = ok and x[int(r)] == v
            print("registers x5..x8:", [hex(v) for v in x[5:9]], "expected", j["expected_registers"])
        except Exception as e:
            print("raises", type(e).__name__, str(e)[:200])
            ok = False
        print("recorded:", j.get("what"))
        return ok
    if key.startswith("C15"):
        fn = (lambda t: ToySimulation().load_program(t)) if j.get("assembler") == "toy" else (lambda t: RiscvSimulation().load_program(t))
        bad, kind = well_typed_outcome(fn, text)
        print("text:", repr(text[:300]), "->", bad or kind)
        return bad is None
    try:
        s = load(text)
        print("loads:", [(a, str(i)) for a, i in sorted(imem(s).items())][:12])
    except Exception as e:
        print("load raises", type(e).__name__, e)
    print("recorded:", j.get("what"))
    return False
