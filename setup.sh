#!/bin/sh
# Builds the overlay interpreter used by every check: Python 3.12 (the repo's own /venv
# interpreter) + z3-solver + cvc5 + jsonschema from the offline wheelhouse, with /venv's
# site-packages (fixedint, pyparsing, editable repo) visible through a .pth file.
set -e
cd "$(dirname "$0")"
if [ -x .venv/bin/python ] && .venv/bin/python -c "import z3, jsonschema, fixedint, pyparsing" 2>/dev/null; then
  exit 0
fi
rm -rf .venv
/venv/bin/python -m venv .venv
PIP_NO_INDEX=1 .venv/bin/pip install -q --no-index --find-links /opt/veriftools/wheels z3-solver cvc5 jsonschema
echo "import site; site.addsitedir('/venv/lib/python3.12/site-packages')" > .venv/lib/python3.12/site-packages/_overlay.pth
.venv/bin/python -c "import z3, jsonschema, fixedint, pyparsing; print('verif venv ok, z3', z3.get_version_string())"
