#!/bin/sh
# runs every check of MANIFEST.json at the given tier (default quick); prints one summary line per property
TIER=${1:-quick}
cd "$(dirname "$0")"
RC=0
for P in C01 C02 C03 C04 C05 C06 C07 C08 C09 C10 C11 C12 C13 C14 C15 C16 C17 C18 C19 C20; do
  ./check $P --tier $TIER > /tmp/run_all_$P.log 2>&1; R=$?
  echo "rc=$R $(tail -1 /tmp/run_all_$P.log)"
  [ $R -ne 0 ] && { RC=1; grep -E "VIOLATION|CRASH" /tmp/run_all_$P.log | head -3; }
done
exit $RC
